import QscProofs.P.SpecMat
open Finset Real
namespace SpecMat

lemma refl_val (n j k : ℕ) (hj : j < n) (hk : k < n) :
    (j + n - k) % n = if k ≤ j then j - k else j + n - k := by
  by_cases h : k ≤ j
  · rw [if_pos h]
    have : j + n - k = (j - k) + n := by omega
    rw [this, Nat.add_mod_right, Nat.mod_eq_of_lt (by omega)]
  · rw [if_neg h, Nat.mod_eq_of_lt (by omega)]

lemma refl_lt (n j k : ℕ) (hj : j < n) (hk : k < n) : (j + n - k) % n < n :=
  Nat.mod_lt _ (by omega)

lemma refl_invol (n j k : ℕ) (hj : j < n) (hk : k < n) :
    (j + n - (j + n - k) % n) % n = k := by
  rw [refl_val n j k hj hk]
  by_cases h : k ≤ j
  · rw [if_pos h, refl_val n j (j - k) hj (by omega), if_pos (by omega)]; omega
  · rw [if_neg h, refl_val n j (j + n - k) hj (by omega), if_neg (by omega)]; omega

/-- periodicity: the sample at index `(j+n-m) % n` is the sample at angle `j h − m h` -/
lemma sin_refl (n p j m : ℕ) (hn : 0 < n) (hj : j < n) (hm : m < n) :
    Real.sin (p * ((((j + n - m) % n : ℕ) : ℝ) * (2 * π / n)))
      = Real.sin (p * (j * (2 * π / n)) - p * (m * (2 * π / n))) := by
  have hn0 : (n:ℝ) ≠ 0 := by positivity
  rw [refl_val n j m hj hm]
  by_cases h : m ≤ j
  · rw [if_pos h, Nat.cast_sub h]; congr 1; ring
  · rw [if_neg h]
    have hle : m ≤ j + n := by omega
    rw [Nat.cast_sub hle]; push_cast
    have : (p:ℝ) * (((j:ℝ) + n - m) * (2 * π / n))
        = (p * (j * (2 * π / n)) - p * (m * (2 * π / n))) + p * (2 * π) := by field_simp; ring
    rw [this, Real.sin_add_nat_mul_two_pi]

/-- **Exactness on sines, every odd n, every resolvable mode**:  Σ_k D[j,k] sin(p x_k) = p cos(p x_j). -/
theorem specDiff_exact_sin (n p j : ℕ) (hn : n % 2 = 1) (hp : 2 * p ≤ n - 1) (hj : j < n) :
    ∑ k ∈ range n, Dmat n j k * Real.sin (p * (k * (2 * π / n)))
      = p * Real.cos (p * (j * (2 * π / n))) := by
  have hn0 : 0 < n := by omega
  -- circulant form, then reindex k ↦ m = (j+n-k) % n (an involution of range n)
  have h1 : ∑ k ∈ range n, Dmat n j k * Real.sin (p * (k * (2 * π / n)))
      = ∑ m ∈ range n, c n m * Real.sin (p * (j * (2 * π / n)) - p * (m * (2 * π / n))) := by
    apply Finset.sum_nbij' (fun k => (j + n - k) % n) (fun m => (j + n - m) % n)
    · intro k hk; rw [Finset.mem_range] at *; exact refl_lt n j k hj hk
    · intro m hm; rw [Finset.mem_range] at *; exact refl_lt n j m hj hm
    · intro k hk; rw [Finset.mem_range] at hk; exact refl_invol n j k hj hk
    · intro m hm; rw [Finset.mem_range] at hm; exact refl_invol n j m hj hm
    · intro k hk
      rw [Finset.mem_range] at hk
      rw [Dmat_circulant n j k hn hj hk]
      have hm : (j + n - k) % n < n := refl_lt n j k hj hk
      have := sin_refl n p j ((j + n - k) % n) hn0 hj hm
      rw [refl_invol n j k hj hk] at this
      rw [this]
  rw [h1]
  -- drop m = 0 (c 0 = 0) and use the two symbol theorems
  rw [Finset.range_eq_Ico, Finset.sum_eq_sum_Ico_succ_bot hn0]
  have h0 : c n 0 = 0 := by simp [c]
  rw [h0, zero_mul, zero_add]
  have h2 : ∀ m ∈ Ico (0+1) n, c n m * Real.sin (p * (j * (2 * π / n)) - p * (m * (2 * π / n)))
      = Real.sin (p * (j * (2 * π / n))) * (cOdd n m * Real.cos (p * (m * (2 * π / n))))
        - Real.cos (p * (j * (2 * π / n))) * (cOdd n m * Real.sin (p * (m * (2 * π / n)))) := by
    intro m hm
    rw [Finset.mem_Ico] at hm
    have hm0 : m ≠ 0 := by omega
    simp only [c, if_neg hm0, Real.sin_sub]; ring
  rw [Finset.sum_congr rfl h2, Finset.sum_sub_distrib, ← Finset.mul_sum, ← Finset.mul_sum]
  rw [zero_add, symbol_cos n p hn, symbol_sin n hn p hp]
  ring
#print axioms specDiff_exact_sin

/-- periodicity: the sample at index `(j+n-m) % n` is the sample at angle `j h − m h` -/
lemma cos_refl (n p j m : ℕ) (hn : 0 < n) (hj : j < n) (hm : m < n) :
    Real.cos (p * ((((j + n - m) % n : ℕ) : ℝ) * (2 * π / n)))
      = Real.cos (p * (j * (2 * π / n)) - p * (m * (2 * π / n))) := by
  have hn0 : (n:ℝ) ≠ 0 := by positivity
  rw [refl_val n j m hj hm]
  by_cases h : m ≤ j
  · rw [if_pos h, Nat.cast_sub h]; congr 1; ring
  · rw [if_neg h]
    have hle : m ≤ j + n := by omega
    rw [Nat.cast_sub hle]; push_cast
    have : (p:ℝ) * (((j:ℝ) + n - m) * (2 * π / n))
        = (p * (j * (2 * π / n)) - p * (m * (2 * π / n))) + p * (2 * π) := by field_simp; ring
    rw [this, Real.cos_add_nat_mul_two_pi]

/-- **Exactness on cosines, every odd n, every resolvable mode**:  Σ_k D[j,k] cos(p x_k) = −p sin(p x_j). -/
theorem specDiff_exact_cos (n p j : ℕ) (hn : n % 2 = 1) (hp : 2 * p ≤ n - 1) (hj : j < n) :
    ∑ k ∈ range n, Dmat n j k * Real.cos (p * (k * (2 * π / n)))
      = -(p * Real.sin (p * (j * (2 * π / n)))) := by
  have hn0 : 0 < n := by omega
  -- circulant form, then reindex k ↦ m = (j+n-k) % n (an involution of range n)
  have h1 : ∑ k ∈ range n, Dmat n j k * Real.cos (p * (k * (2 * π / n)))
      = ∑ m ∈ range n, c n m * Real.cos (p * (j * (2 * π / n)) - p * (m * (2 * π / n))) := by
    apply Finset.sum_nbij' (fun k => (j + n - k) % n) (fun m => (j + n - m) % n)
    · intro k hk; rw [Finset.mem_range] at *; exact refl_lt n j k hj hk
    · intro m hm; rw [Finset.mem_range] at *; exact refl_lt n j m hj hm
    · intro k hk; rw [Finset.mem_range] at hk; exact refl_invol n j k hj hk
    · intro m hm; rw [Finset.mem_range] at hm; exact refl_invol n j m hj hm
    · intro k hk
      rw [Finset.mem_range] at hk
      rw [Dmat_circulant n j k hn hj hk]
      have hm : (j + n - k) % n < n := refl_lt n j k hj hk
      have := cos_refl n p j ((j + n - k) % n) hn0 hj hm
      rw [refl_invol n j k hj hk] at this
      rw [this]
  rw [h1]
  -- drop m = 0 (c 0 = 0) and use the two symbol theorems
  rw [Finset.range_eq_Ico, Finset.sum_eq_sum_Ico_succ_bot hn0]
  have h0 : c n 0 = 0 := by simp [c]
  rw [h0, zero_mul, zero_add]
  have h2 : ∀ m ∈ Ico (0+1) n, c n m * Real.cos (p * (j * (2 * π / n)) - p * (m * (2 * π / n)))
      = Real.cos (p * (j * (2 * π / n))) * (cOdd n m * Real.cos (p * (m * (2 * π / n))))
        + Real.sin (p * (j * (2 * π / n))) * (cOdd n m * Real.sin (p * (m * (2 * π / n)))) := by
    intro m hm
    rw [Finset.mem_Ico] at hm
    have hm0 : m ≠ 0 := by omega
    simp only [c, if_neg hm0, Real.cos_sub]; ring
  rw [Finset.sum_congr rfl h2, Finset.sum_add_distrib, ← Finset.mul_sum, ← Finset.mul_sum]
  rw [zero_add, symbol_cos n p hn, symbol_sin n hn p hp]
  ring
#print axioms specDiff_exact_cos
end SpecMat
