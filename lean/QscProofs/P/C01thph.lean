import Mathlib.RingTheory.Derivation.Basic
import Mathlib.Algebra.BigOperators.Intervals
import Mathlib.Tactic.FieldSimp
import Mathlib.Tactic.Ring
import Mathlib.Tactic.LinearCombination
import Mathlib.Algebra.Algebra.Rat
set_option maxHeartbeats 4000000
set_option maxRecDepth 100000
/-! C01 (order r2), poloidal and toroidal covariant components at O(r²), every harmonic.
    Generated: hypotheses and certificate printed from sympy (sequential pseudo-division). -/
open Finset
namespace NearAxis4
variable {K : Type} [Field K] [CharZero K]
abbrev Ser (K : Type) := ℕ → K
def mulS (a b : Ser K) : Ser K := fun k => ∑ i ∈ range (k+1), a i * b (k - i)
structure V3 (K : Type) where (n b t : Ser K)
def dotS (u v : V3 K) : Ser K := fun k => mulS u.n v.n k + mulS u.b v.b k + mulS u.t v.t k
def dr (a : Ser K) : Ser K := fun k => ((k:ℕ) + 1 : ℕ) * a (k+1)
def comp (a1c a1s a20 a2c a2s c s : K) : Ser K := fun k =>
  if k = 1 then a1c * c + a1s * s else if k = 2 then a20 + a2c * (c*c - s*s) + a2s * (2*c*s) else 0
def compθ (a1c a1s a2c a2s c s : K) : Ser K := fun k =>
  if k = 1 then -(a1c * s) + a1s * c else if k = 2 then 2 * (-(a2c * (2*c*s)) + a2s * (c*c - s*s)) else 0


theorem C01_r2_TH_PH (D : Derivation ℚ K K)
    (X1c Y1c Y1s X20 X2c X2s Y20 Y2c Y2s Z20 Z2c Z2s kap tau lp iotaN iota B0 etabar sG spsi B20 B2c B2s G2 mu0 p2 I2 c s : K)
    (dc : D c = 0) (ds : D s = 0)
    (h1 : X1c*Y1s - sG*spsi = 0)
    (hB20 : (B0)^2*(X1c)^2*(iotaN)^2 + (B0)^2*(X1c)^2*(lp)^2*(tau)^2 + 4*(B0)^2*X1c*Y1s*iotaN*lp*tau + 2*(B0)^2*X1c*(D Y1c)*lp*tau - 4*(B0)^2*X20*kap*(lp)^2 + (B0)^2*(Y1c)^2*(iotaN)^2 + (B0)^2*(Y1c)^2*(lp)^2*(tau)^2 - 2*(B0)^2*Y1c*(D X1c)*lp*tau - 2*(B0)^2*Y1c*(D Y1s)*iotaN + (B0)^2*(Y1s)^2*(iotaN)^2 + (B0)^2*(Y1s)^2*(lp)^2*(tau)^2 + 2*(B0)^2*Y1s*(D Y1c)*iotaN + (B0)^2*((D X1c))^2 + (B0)^2*((D Y1c))^2 + (B0)^2*((D Y1s))^2 + 4*(B0)^2*(D Z20)*lp - 2*(B0)^2*(etabar)^2*(lp)^2 + 4*B0*B20*(lp)^2 + 4*(lp)^2*mu0*p2 = 0)
    (hDZ2c : 2*X1c*(D X1c) + 4*Y1c*Y1s*iotaN + 2*Y1c*(D Y1c) - 2*Y1s*(D Y1s) + 8*Z2c*lp = 0)
    (hDZ2s : -2*(X1c)^2*iotaN - 2*(Y1c)^2*iotaN + 2*Y1c*(D Y1s) + 2*(Y1s)^2*iotaN + 2*Y1s*(D Y1c) + 8*Z2s*lp = 0)
    (hG2 : B0*G2 + B0*I2*iota + lp*mu0*p2*sG = 0)
    (hX2c : B0*(X1c)^2*(iotaN)^2/4 - B0*(X1c)^2*(lp)^2*(tau)^2/4 - B0*X1c*(D Y1c)*lp*tau/2 + B0*X2c*kap*(lp)^2 + B0*(Y1c)^2*(iotaN)^2/4 - B0*(Y1c)^2*(lp)^2*(tau)^2/4 + B0*Y1c*(D X1c)*lp*tau/2 - B0*Y1c*(D Y1s)*iotaN/2 - B0*(Y1s)^2*(iotaN)^2/4 + B0*(Y1s)^2*(lp)^2*(tau)^2/4 - B0*Y1s*(D Y1c)*iotaN/2 - 2*B0*Z2s*iotaN*lp - B0*((D X1c))^2/4 - B0*((D Y1c))^2/4 + B0*((D Y1s))^2/4 - B0*(D Z2c)*lp + B0*(etabar)^2*(lp)^2/2 - B2c*(lp)^2 = 0)
    (hX2s : B0*X1c*(D X1c)*iotaN/2 - B0*X1c*(D Y1s)*lp*tau/2 + B0*X2s*kap*(lp)^2 + B0*Y1c*Y1s*(iotaN)^2/2 - B0*Y1c*Y1s*(lp)^2*(tau)^2/2 + B0*Y1c*(D Y1c)*iotaN/2 + B0*Y1s*(D X1c)*lp*tau/2 - B0*Y1s*(D Y1s)*iotaN/2 + 2*B0*Z2c*iotaN*lp - B0*(D Y1c)*(D Y1s)/2 - B0*(D Z2s)*lp - B2s*(lp)^2 = 0)
    (hcs : (c)^2 + (s)^2 + (-1) = 0)
    (hk : X1c*kap - etabar = 0)
    (hsG : (sG)^2 + (-1) = 0)
    (hsp : (spsi)^2 + (-1) = 0)
    (hσ : B0*(X1c)^4*(Y1s)^2*iotaN + 2*B0*(X1c)^2*(Y1s)^2*lp*sG*spsi*tau + B0*(Y1c)^2*iotaN - B0*Y1c*(D Y1s) + B0*(Y1s)^2*iotaN + B0*Y1s*(D Y1c) - 2*I2*(X1c)^2*(Y1s)^2*lp*sG = 0)
    :
    let pos : V3 K := ⟨comp X1c 0 X20 X2c X2s c s, comp Y1c Y1s Y20 Y2c Y2s c s, comp 0 0 Z20 Z2c Z2s c s⟩
    let eθ : V3 K := ⟨compθ X1c 0 X2c X2s c s, compθ Y1c Y1s Y2c Y2s c s, compθ 0 0 Z2c Z2s c s⟩
    let eφ : V3 K := ⟨fun k => D (pos.n k) + lp * (kap * pos.t k - tau * pos.b k),
                       fun k => D (pos.b k) + lp * tau * pos.n k,
                       fun k => D (pos.t k) - lp * kap * pos.n k + (if k = 0 then lp else 0)⟩
    let B : Ser K := fun k => if k = 0 then B0 else if k = 1 then B0 * etabar * c
                              else if k = 2 then B20 + B2c * (c*c - s*s) + B2s * (2*c*s) else 0
    let B2 := mulS B B
    let w : V3 K := ⟨fun k => eφ.n k + iotaN * eθ.n k, fun k => eφ.b k + iotaN * eθ.b k, fun k => eφ.t k + iotaN * eθ.t k⟩
    let G0 := sG * lp * B0
    -- poloidal covariant component at O(r²) (scaled by B0):  B²(w·e_ϑ) − I(G+ιI)
    B0 * (mulS B2 (dotS w eθ) 2 - I2 * G0) = 0
    -- toroidal covariant component at O(r²):  B²(w·e_φ) − (G+NI)(G+ιI),  N = ι − ι_N
    ∧ mulS B2 (dotS w eφ) 2 - G0 * (2 * G2 + (2*iota - iotaN) * I2) = 0 := by
  intro pos eθ eφ B B2 w G0
  have d2 : D (2:K) = 0 := by simpa using D.map_natCast 2
  constructor
  · linear_combination (norm := (simp [w, B2, B, G0, eθ, eφ, pos, mulS, dotS, comp, compθ, Finset.sum_range_succ, dc, ds, d2, -mul_eq_zero] <;> ring)) ((B0)^3*X1c*Y1s*lp*tau + (B0)^3*(Y1s)^2*iotaN + (B0)^3*Y1s*(D Y1c) + 2*(B0)^3*Z2s*lp) * hcs
      + (-(B0)^3*(s)^2/2 + (B0)^3/4) * hDZ2s
      + (-(B0)^3*c*s/2) * hDZ2c
      + ((B0)^2/2) * hσ
      + (-(B0)^3*(X1c)^3*Y1s*iotaN/2 - (B0)^3*(X1c)^2*iotaN*sG*spsi/2 - (B0)^3*X1c*Y1s*lp*sG*spsi*tau - (B0)^3*lp*(sG)^2*(spsi)^2*tau + (B0)^3*lp*tau + (B0)^2*I2*X1c*Y1s*lp*sG + (B0)^2*I2*lp*(sG)^2*spsi) * h1
      + (-(B0)^3*(X1c)^2*iotaN*(spsi)^2/2 - (B0)^3*lp*sG*(spsi)^3*tau + (B0)^2*I2*lp*sG*(spsi)^2) * hsG
      + (-(B0)^3*(X1c)^2*iotaN/2 - (B0)^3*lp*sG*spsi*tau + (B0)^2*I2*lp*sG) * hsp
  · linear_combination (norm := (simp [w, B2, B, G0, eθ, eφ, pos, mulS, dotS, comp, compθ, Finset.sum_range_succ, dc, ds, d2, -mul_eq_zero] <;> ring)) ((B0)^2*(X1c)^2*(kap)^2*(lp)^2 + (B0)^2*(X1c)^2*(lp)^2*(tau)^2 + (B0)^2*X1c*Y1s*iotaN*lp*tau + 2*(B0)^2*X1c*(D Y1c)*lp*tau - 4*(B0)^2*X1c*etabar*kap*(lp)^2 - 2*(B0)^2*X2c*kap*(lp)^2 + (B0)^2*(Y1c)^2*(lp)^2*(tau)^2 - 2*(B0)^2*Y1c*(D X1c)*lp*tau + (B0)^2*Y1s*(D Y1c)*iotaN + 2*(B0)^2*Z2s*iotaN*lp + (B0)^2*((D X1c))^2 + (B0)^2*((D Y1c))^2 + 2*(B0)^2*(D Z2c)*lp + (B0)^2*(etabar)^2*(lp)^2 + 2*B0*B2c*(lp)^2) * hcs
      + ((1 / 2)) * hB20
      + (-2*lp*sG) * hG2
      + (-4*B0*c*s) * hX2s
      + (4*B0*(s)^2 - 2*B0) * hX2c
      + ((B0)^2*iotaN*(s)^2/2 - (B0)^2*iotaN/4) * hDZ2s
      + ((B0)^2*c*iotaN*s/2) * hDZ2c
      + (-B0*iotaN/2) * hσ
      + (-(B0)^2*X1c*kap*(lp)^2*(s)^2 + (B0)^2*X1c*kap*(lp)^2 + 3*(B0)^2*etabar*(lp)^2*(s)^2 - 3*(B0)^2*etabar*(lp)^2) * hk
      + ((B0)^2*(X1c)^3*Y1s*(iotaN)^2/2 + (B0)^2*(X1c)^2*(iotaN)^2*sG*spsi/2 + (B0)^2*X1c*Y1s*iotaN*lp*sG*spsi*tau + (B0)^2*iotaN*lp*(sG)^2*(spsi)^2*tau - (B0)^2*iotaN*lp*tau - B0*I2*X1c*Y1s*iotaN*lp*sG - B0*I2*iotaN*lp*(sG)^2*spsi) * h1
      + ((B0)^2*(X1c)^2*(iotaN)^2*(spsi)^2/2 + (B0)^2*iotaN*lp*sG*(spsi)^3*tau - B0*I2*iotaN*lp*sG*(spsi)^2 + 2*(lp)^2*mu0*p2) * hsG
      + ((B0)^2*(X1c)^2*(iotaN)^2/2 + (B0)^2*iotaN*lp*sG*spsi*tau - B0*I2*iotaN*lp*sG) * hsp
#print axioms C01_r2_TH_PH
end NearAxis4
