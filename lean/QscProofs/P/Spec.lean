import QscProofs.P.Roots
import Mathlib.Tactic.FieldSimp
import Mathlib.Tactic.Ring
import Mathlib.Tactic.Linarith
import Mathlib.Algebra.BigOperators.Intervals

open Finset Real

/-- closed form of the first column of the odd-n spectral differentiation matrix (period 2π) -/
noncomputable def cOdd (n m : ℕ) : ℝ := (1/2) * (-1)^m / Real.sin (m * π / n)

lemma sin_pos_of_mem (n m : ℕ) (hm1 : 1 ≤ m) (hm2 : m < n) : 0 < Real.sin (m * π / n) := by
  have hn : (0:ℝ) < n := by exact_mod_cast (lt_of_le_of_lt (Nat.zero_le m) hm2)
  apply Real.sin_pos_of_pos_of_lt_pi
  · have : (0:ℝ) < m := by exact_mod_cast hm1
    positivity
  · rw [div_lt_iff₀ hn]
    have : (m:ℝ) < n := by exact_mod_cast hm2
    nlinarith [Real.pi_pos]

/-- one telescoping step: termwise identity -/
lemma step_term (n p m : ℕ) (hn : n % 2 = 1) (hp : 1 ≤ p) (hm1 : 1 ≤ m) (hm2 : m < n) :
    cOdd n m * (Real.sin (p * (m * (2 * π / n))) - Real.sin ((p - 1 : ℕ) * (m * (2 * π / n))))
      = Real.cos (2 * π * m * ((n + 2 * p - 1) / 2 : ℕ) / n) := by
  have hs := sin_pos_of_mem n m hm1 hm2
  have hnpos : (0:ℝ) < n := by exact_mod_cast (lt_of_le_of_lt (Nat.zero_le m) hm2)
  have hn0 : (n:ℝ) ≠ 0 := ne_of_gt hnpos
  -- q = (n + 2p - 1)/2 exactly, since n is odd
  obtain ⟨k, hk⟩ : ∃ k, n = 2 * k + 1 := ⟨n / 2, by omega⟩
  have hq : (n + 2 * p - 1) / 2 = k + p := by omega
  rw [hq]
  have hpc : ((p - 1 : ℕ) : ℝ) = (p:ℝ) - 1 := by
    rw [Nat.cast_sub hp]; simp
  rw [Real.sin_sub_sin, hpc]
  have e1 : ((p:ℝ) * (m * (2 * π / n)) - ((p:ℝ) - 1) * (m * (2 * π / n))) / 2 = m * π / n := by
    field_simp; ring
  have e2 : ((p:ℝ) * (m * (2 * π / n)) + ((p:ℝ) - 1) * (m * (2 * π / n))) / 2
      = (2 * p - 1) * m * π / n := by
    field_simp; ring
  rw [e1, e2]
  unfold cOdd
  have : 2 * π * m * ((k + p : ℕ) : ℝ) / n = (2 * p - 1) * m * π / n + m * π := by
    have hnk : (n:ℝ) = 2 * k + 1 := by exact_mod_cast hk
    push_cast
    field_simp
    rw [hnk]; ring
  rw [this, Real.cos_add_nat_mul_pi]
  field_simp
#print axioms step_term
