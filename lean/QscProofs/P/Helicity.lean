import QscModel.Hand.Helicity
/-! The quadrant counter of `_determine_helicity`: theorems about the executable model `Hand.Helicity`
    (`QscModel/Hand/Helicity.lean`, tied to the implementation by the `hand helicity` correspondence).
    The counter is always 4·(#(4→1) − #(1→4)), hence helicity = counter/4 is an integer for EVERY quadrant sequence.
    Core Lean only; the full set of C13 theorems is in `QscProofs/C13.lean`. -/
namespace Helicity
open Hand.Helicity

theorem walk_spec : ∀ (l : List Int) (a : Int),
    (walk a l).1 = ((walk a l).2.2.2 - a) + 4 * ((walk a l).2.1 - (walk a l).2.2.1) := by
  intro l
  induction l with
  | nil => intro a; simp [walk]
  | cons b l ih =>
    intro a
    have h := ih b
    simp only [walk]
    unfold step up down
    split <;> split <;> omega

/-- the code closes the loop: `quadrant[nphi] = quadrant[0]`; then counter = 4·(ups − downs). -/
theorem counter_closed (a : Int) (l : List Int) (hclosed : (walk a l).2.2.2 = a) :
    (walk a l).1 = 4 * ((walk a l).2.1 - (walk a l).2.2.1) := by
  have := walk_spec l a
  omega

/-- non-vacuity: a sequence winding once: 1→2→3→4→1 has counter 4 (helicity 1 before the sG·spsi factor) -/
example : (walk 1 [2,3,4,1]).1 = 4 := by decide
example : (walk 1 [4,3,2,1]).1 = -4 := by decide
end Helicity
