/-! Model of `_determine_helicity`'s quadrant counting and the theorem that the counter is always
    4·(#(4→1) − #(1→4)), hence helicity = counter/4 is an integer for EVERY quadrant sequence. Core Lean only. -/
namespace Helicity

/-- quadrant of the normal vector from the signs of (n_R, n_Z), as in the code (`>= 0` tests) -/
def quadrant (nRnonneg nZnonneg : Bool) : Int :=
  if nRnonneg then (if nZnonneg then 1 else 4) else (if nZnonneg then 2 else 3)

/-- one update of `counter` for consecutive quadrants a → b -/
def step (a b : Int) : Int :=
  if a = 4 ∧ b = 1 then 1 else if a = 1 ∧ b = 4 then -1 else b - a

def up (a b : Int) : Int := if a = 4 ∧ b = 1 then 1 else 0     -- crossing 4 → 1
def down (a b : Int) : Int := if a = 1 ∧ b = 4 then 1 else 0   -- crossing 1 → 4

/-- walk along the sequence `a, l₀, l₁, …` accumulating (counter, #up, #down, last) -/
def walk : Int → List Int → (Int × Int × Int × Int)
  | a, []      => (0, 0, 0, a)
  | a, b :: l  => let r := walk b l; (step a b + r.1, up a b + r.2.1, down a b + r.2.2.1, r.2.2.2)

theorem walk_spec : ∀ (l : List Int) (a : Int),
    (walk a l).1 = ((walk a l).2.2.2 - a) + 4 * ((walk a l).2.1 - (walk a l).2.2.1) := by
  intro l
  induction l with
  | nil => intro a; simp [walk]
  | cons b l ih =>
    intro a
    have h := ih b
    simp only [walk]
    unfold step up down
    split <;> split <;> omega

/-- the code closes the loop: `quadrant[nphi] = quadrant[0]`; then counter = 4·(ups − downs). -/
theorem counter_closed (a : Int) (l : List Int) (hclosed : (walk a l).2.2.2 = a) :
    (walk a l).1 = 4 * ((walk a l).2.1 - (walk a l).2.2.1) := by
  have := walk_spec l a
  omega

/-- non-vacuity: a sequence winding once: 1→2→3→4→1 has counter 4 (helicity 1 before the sG·spsi factor) -/
example : (walk 1 [2,3,4,1]).1 = 4 := by decide
example : (walk 1 [4,3,2,1]).1 = -4 := by decide
end Helicity
