import Mathlib.RingTheory.Derivation.Basic
import Mathlib.Algebra.BigOperators.Intervals
import Mathlib.Tactic.FieldSimp
import Mathlib.Tactic.Ring
import Mathlib.Tactic.LinearCombination
import Mathlib.Algebra.Algebra.Rat
/-! C01 (order r1): Boozer identities from the geometry alone, in the continuum model.
    Series in r are functions ℕ → K (coefficients), vectors are (n, b, t) components in the Frenet frame. -/
open Finset
namespace NearAxis
variable {K : Type} [Field K] [CharZero K]

abbrev Ser (K : Type) := ℕ → K
def mulS (a b : Ser K) : Ser K := fun k => ∑ i ∈ range (k+1), a i * b (k - i)
structure V3 (K : Type) where (n b t : Ser K)
def dotS (u v : V3 K) : Ser K := fun k => mulS u.n v.n k + mulS u.b v.b k + mulS u.t v.t k
def crossS (u v : V3 K) : V3 K :=
  ⟨fun k => mulS u.b v.t k - mulS u.t v.b k, fun k => mulS u.t v.n k - mulS u.n v.t k, fun k => mulS u.n v.b k - mulS u.b v.n k⟩
/-- ∂/∂r on coefficient sequences -/
def dr (a : Ser K) : Ser K := fun k => ((k:ℕ) + 1 : ℕ) * a (k+1)

/-- first-order position vector data (helical angle ϑ; c = cos ϑ, s = sin ϑ), and its ϑ-derivative -/
def X (X1c c : K) : Ser K := fun k => if k = 1 then X1c * c else 0
def Xθ (X1c s : K) : Ser K := fun k => if k = 1 then -(X1c * s) else 0
def Y (Y1c Y1s c s : K) : Ser K := fun k => if k = 1 then Y1c * c + Y1s * s else 0
def Yθ (Y1c Y1s c s : K) : Ser K := fun k => if k = 1 then -(Y1c * s) + Y1s * c else 0
def Zero : Ser K := fun _ => 0

theorem C01_r1 (D : Derivation ℚ K K)
    (X1c Y1c Y1s kap tau lp iotaN iota B0 etabar sG spsi I2 c s : K)
    (hcs : c*c + s*s = 1) (dc : D c = 0) (ds : D s = 0)
    (hsG : sG*sG = 1) (hsp : spsi*spsi = 1) (hlp : lp ≠ 0) (hB : B0 ≠ 0)
    (h1 : X1c * Y1s = sG * spsi) (hk : X1c * kap = etabar)
    -- the σ-equation, written for σ = Y1c/Y1s without dividing:
    (hσ : B0 * (Y1s * D Y1c - Y1c * D Y1s + iotaN * (Y1s*Y1s*(X1c*X1c*X1c*X1c + 1) + Y1c*Y1c))
            - 2 * X1c*X1c * Y1s*Y1s * (-spsi*tau*B0 + I2) * sG * lp = 0) :
    let pos : V3 K := ⟨X X1c c, Y Y1c Y1s c s, Zero⟩
    let eθ : V3 K := ⟨Xθ X1c s, Yθ Y1c Y1s c s, Zero⟩
    let er : V3 K := ⟨dr pos.n, dr pos.b, dr pos.t⟩
    let eφ : V3 K := ⟨fun k => D (pos.n k) + lp * (kap * pos.t k - tau * pos.b k),
                       fun k => D (pos.b k) + lp * tau * pos.n k,
                       fun k => D (pos.t k) - lp * kap * pos.n k + (if k = 0 then lp else 0)⟩
    let sqrtg := dotS er (crossS eθ eφ)
    let B : Ser K := fun k => if k = 0 then B0 else if k = 1 then B0 * etabar * c else 0
    let B2 := mulS B B
    let G0 := sG * lp * B0
    let w : V3 K := ⟨fun k => eφ.n k + iotaN * eθ.n k, fun k => eφ.b k + iotaN * eθ.b k, fun k => eφ.t k + iotaN * eθ.t k⟩
    -- Jacobian equation at O(r):
    mulS sqrtg B2 1 - spsi * B0 * G0 = 0
    -- toroidal covariant component at O(1), O(r):
    ∧ mulS B2 (dotS w eφ) 0 - G0 * G0 = 0
    ∧ mulS B2 (dotS w eφ) 1 = 0
    -- poloidal covariant component at O(r²): zero ϑ-average (it is the σ-equation)
    ∧ ∃ E2c E2s : K, mulS B2 (dotS w eθ) 2 - I2 * G0 = E2c * (c*c - s*s) + E2s * (2*c*s) := by
  intro pos eθ er eφ sqrtg B B2 G0 w
  refine ⟨?_, ?_, ?_, ?_⟩
  · simp [sqrtg, B2, B, G0, er, eθ, eφ, pos, mulS, dotS, crossS, dr, X, Xθ, Y, Yθ, Zero, Finset.sum_range_succ, dc, ds]
    linear_combination (B0*B0*lp) * h1 + (B0*B0*lp*X1c*Y1s) * hcs
  · simp [w, B2, B, G0, eθ, eφ, pos, mulS, dotS, X, Xθ, Y, Yθ, Zero, Finset.sum_range_succ]
    linear_combination (-(B0^2*lp^2)) * hsG
  · simp [w, B2, B, G0, eθ, eφ, pos, mulS, dotS, X, Xθ, Y, Yθ, Zero, Finset.sum_range_succ, dc, ds]
    linear_combination (-2*B0*B0*lp*lp*c) * hk
  · refine ⟨B0^2 * ((D Y1c * Y1s + lp*tau*X1c*Y1s + iotaN*Y1s^2) - (lp*tau*X1c*Y1s + iotaN*X1c^2 - D Y1s * Y1c + iotaN*Y1c^2)) / 2,
             B0^2 * (-(X1c * D X1c) - Y1c * D Y1c + Y1s * D Y1s - 2*iotaN*Y1c*Y1s) / 2, ?_⟩
    rw [← sub_eq_zero]
    have key : B0 * (mulS B2 (dotS w eθ) 2 - I2 * G0
        - (B0^2 * ((D Y1c * Y1s + lp*tau*X1c*Y1s + iotaN*Y1s^2) - (lp*tau*X1c*Y1s + iotaN*X1c^2 - D Y1s * Y1c + iotaN*Y1c^2)) / 2 * (c*c - s*s)
           + B0^2 * (-(X1c * D X1c) - Y1c * D Y1c + Y1s * D Y1s - 2*iotaN*Y1c*Y1s) / 2 * (2*c*s))) = 0 := by
      simp [w, B2, B, G0, eθ, eφ, pos, mulS, dotS, X, Xθ, Y, Yθ, Zero, Finset.sum_range_succ, dc, ds, -mul_eq_zero]
      linear_combination
        (B0^3*(X1c^2*iotaN + 2*X1c*Y1s*lp*tau + Y1c^2*iotaN - Y1c*D Y1s + Y1s^2*iotaN + Y1s*D Y1c)/2) * hcs
        + (B0^2/2) * hσ
        + (-B0^2*(B0*X1c^3*Y1s*iotaN + B0*X1c^2*iotaN*sG*spsi + 2*B0*X1c*Y1s*lp*sG*spsi*tau + 2*B0*lp*sG^2*spsi^2*tau - 2*B0*lp*tau - 2*I2*X1c*Y1s*lp*sG - 2*I2*lp*sG^2*spsi)/2) * h1
        + (-B0^2*spsi^2*(B0*X1c^2*iotaN + 2*B0*lp*sG*spsi*tau - 2*I2*lp*sG)/2) * hsG
        + (-B0^2*(B0*X1c^2*iotaN + 2*B0*lp*sG*spsi*tau - 2*I2*lp*sG)/2) * hsp
    exact (mul_eq_zero.mp key).resolve_left hB
#print axioms C01_r1
end NearAxis
