import Mathlib.Analysis.SpecialFunctions.Trigonometric.Basic
import Mathlib.Analysis.SpecialFunctions.Complex.Circle
import Mathlib.Algebra.Ring.GeomSum
import Mathlib.Analysis.SpecialFunctions.Complex.Log
import Mathlib.Analysis.SpecialFunctions.Trigonometric.Complex

open Finset Real

/-- Sum of cos over the n-th roots of unity to the power q vanishes when n ∤ q. -/
theorem sum_cos_roots (n q : ℕ) (hn : 0 < n) (hq : ¬ n ∣ q) :
    ∑ m ∈ range n, Real.cos (2 * π * m * q / n) = 0 := by
  set ζ : ℂ := Complex.exp ((2 * π * q / n : ℝ) * Complex.I) with hζ
  have hpow : ∀ m : ℕ, ζ ^ m = Complex.exp ((2 * π * m * q / n : ℝ) * Complex.I) := by
    intro m
    rw [hζ, ← Complex.exp_nat_mul]
    congr 1
    push_cast
    ring
  have hn' : (n : ℝ) ≠ 0 := by positivity
  have hζn : ζ ^ n = 1 := by
    rw [hpow n]
    have : (2 * π * n * q / n : ℝ) = q * (2 * π) := by field_simp
    rw [this]
    push_cast
    have := Complex.exp_nat_mul_two_pi_mul_I q
    simpa [mul_assoc, mul_comm, mul_left_comm] using this
  have hζ1 : ζ ≠ 1 := by
    intro h
    rw [hζ, Complex.exp_eq_one_iff] at h
    obtain ⟨k, hk⟩ := h
    have hI : ((2 * π * q / n : ℝ) : ℂ) = k * (2 * π) := by
      have h2 : ((2 * π * q / n : ℝ) : ℂ) * Complex.I = (k * (2 * π)) * Complex.I := by rw [hk]; ring
      exact mul_right_cancel₀ Complex.I_ne_zero h2
    have hr : (2 * π * q / n : ℝ) = k * (2 * π) := by exact_mod_cast hI
    have hpi : (2 * π) ≠ 0 := by positivity
    have hqk : (q : ℝ) = k * n := by
      field_simp at hr
      nlinarith [hr, Real.pi_pos]
    have : (q : ℤ) = k * n := by exact_mod_cast hqk
    apply hq
    have hk0 : (n : ℤ) ∣ q := ⟨k, by rw [this]; ring⟩
    exact_mod_cast hk0
  have hsum : ∑ m ∈ range n, ζ ^ m = 0 := by
    have := geom_sum_mul ζ n
    rw [hζn, sub_self] at this
    rcases mul_eq_zero.mp this with h | h
    · exact h
    · exact absurd (sub_eq_zero.mp h) hζ1
  have hre := congrArg Complex.re hsum
  simp only [Complex.re_sum, Complex.zero_re] at hre
  rw [← hre]
  apply Finset.sum_congr rfl
  intro m _
  rw [hpow m, Complex.exp_ofReal_mul_I_re]
#print axioms sum_cos_roots
