import QscProofs.P.Spec
open Finset Real

/-- Σ_{m=1}^{n-1} cos(2π m q / n) = -1 when n ∤ q -/
lemma sum_cos_Ico (n q : ℕ) (hn : 0 < n) (hq : ¬ n ∣ q) :
    ∑ m ∈ Ico 1 n, Real.cos (2 * π * m * q / n) = -1 := by
  have h := sum_cos_roots n q hn hq
  rw [Finset.range_eq_Ico, Finset.sum_eq_sum_Ico_succ_bot hn] at h
  simp at h
  linarith

/-- the symbol of the odd-n spectral differentiation matrix on sines: S_p = -p for 2p ≤ n-1 -/
theorem symbol_sin (n : ℕ) (hn : n % 2 = 1) :
    ∀ p : ℕ, 2 * p ≤ n - 1 →
      ∑ m ∈ Ico 1 n, cOdd n m * Real.sin (p * (m * (2 * π / n))) = -(p : ℝ) := by
  intro p
  induction p with
  | zero => intro _; simp
  | succ p ih =>
    intro hp
    have hp' : 2 * p ≤ n - 1 := by omega
    have ih' := ih hp'
    have hn0 : 0 < n := by omega
    -- telescoping step summed over m
    have hstep : ∑ m ∈ Ico 1 n, cOdd n m * (Real.sin ((p+1 : ℕ) * (m * (2 * π / n))) - Real.sin (((p+1) - 1 : ℕ) * (m * (2 * π / n))))
        = -1 := by
      have : ∀ m ∈ Ico 1 n, cOdd n m * (Real.sin ((p+1 : ℕ) * (m * (2 * π / n))) - Real.sin (((p+1) - 1 : ℕ) * (m * (2 * π / n))))
          = Real.cos (2 * π * m * ((n + 2 * (p+1) - 1) / 2 : ℕ) / n) := by
        intro m hm
        rw [Finset.mem_Ico] at hm
        exact step_term n (p+1) m hn (by omega) hm.1 hm.2
      rw [Finset.sum_congr rfl this]
      apply sum_cos_Ico n _ hn0
      -- q = (n + 2(p+1) - 1)/2 lies strictly between 0 and n
      intro hdiv
      obtain ⟨k, hk⟩ : ∃ k, n = 2 * k + 1 := ⟨n / 2, by omega⟩
      have hq : (n + 2 * (p+1) - 1) / 2 = k + p + 1 := by omega
      rw [hq] at hdiv
      have hlt : k + p + 1 < n := by omega
      have hpos : 0 < k + p + 1 := by omega
      exact absurd (Nat.le_of_dvd hpos hdiv) (by omega)
    simp only [Nat.add_sub_cancel] at hstep
    have : ∑ m ∈ Ico 1 n, cOdd n m * Real.sin ((p+1 : ℕ) * (m * (2 * π / n)))
        = (∑ m ∈ Ico 1 n, cOdd n m * (Real.sin ((p+1 : ℕ) * (m * (2 * π / n))) - Real.sin ((p : ℕ) * (m * (2 * π / n)))))
          + ∑ m ∈ Ico 1 n, cOdd n m * Real.sin (p * (m * (2 * π / n))) := by
      rw [← Finset.sum_add_distrib]
      apply Finset.sum_congr rfl
      intro m _; ring
    rw [this, hstep, ih']
    push_cast; ring
#print axioms symbol_sin
