import QscModel.Gen.RSing
import Mathlib.RingTheory.Derivation.Basic
import Mathlib.Algebra.BigOperators.Intervals
import Mathlib.Tactic.FieldSimp
import Mathlib.Tactic.Ring
import Mathlib.Tactic.LinearCombination
import Mathlib.Algebra.Algebra.Rat
/-! C12: the Jacobian coefficients g0, g1c, g20, g2s, g2c of `calculate_r_singularity` (formulas traced from the source) are the r¹..r³ coefficients of e_r·(e_ϑ×e_φ) of the second-order position vector; g1s = 2ℓ′·eq3. Original header: C01 (order r2), two of the obligation families: the Jacobian equation at O(r²) and the radial covariant
    component at O(r) – from the second-order position vector alone; second-order data are ATOMS related only
    by the code's algebraic constraints (eq3, eq4) and the definitions of Z20, Z2s, Z2c. -/
open Finset
namespace RSing
variable {K : Type} [Field K] [CharZero K]
abbrev Ser (K : Type) := ℕ → K
def mulS (a b : Ser K) : Ser K := fun k => ∑ i ∈ range (k+1), a i * b (k - i)
structure V3 (K : Type) where (n b t : Ser K)
def dotS (u v : V3 K) : Ser K := fun k => mulS u.n v.n k + mulS u.b v.b k + mulS u.t v.t k
def crossS (u v : V3 K) : V3 K :=
  ⟨fun k => mulS u.b v.t k - mulS u.t v.b k, fun k => mulS u.t v.n k - mulS u.n v.t k, fun k => mulS u.n v.b k - mulS u.b v.n k⟩
def dr (a : Ser K) : Ser K := fun k => ((k:ℕ) + 1 : ℕ) * a (k+1)
/-- harmonic data of one component: coefficient of r (cos, sin) and of r² (0, cos2, sin2) -/
def comp (a1c a1s a20 a2c a2s c s : K) : Ser K := fun k =>
  if k = 1 then a1c * c + a1s * s else if k = 2 then a20 + a2c * (c*c - s*s) + a2s * (2*c*s) else 0
/-- its ϑ-derivative -/
def compθ (a1c a1s a2c a2s c s : K) : Ser K := fun k =>
  if k = 1 then -(a1c * s) + a1s * c else if k = 2 then 2 * (-(a2c * (2*c*s)) + a2s * (c*c - s*s)) else 0


/-- the statement for the formulas as printed by the CAS (kept as a lemma; the theorem about the **generated**
definitions is `g_coeffs_are_triple_product` below) -/
theorem g_coeffs_are_triple_product_printed (D : Derivation ℚ K K)
    (X1c Y1c Y1s X20 X2c X2s Y20 Y2c Y2s Z20 Z2c Z2s kap tau lp c s : K)
    (hcs : c^2 + s^2 - 1 = 0) (dc : D c = 0) (ds : D s = 0) :
    let pos : V3 K := ⟨comp X1c 0 X20 X2c X2s c s, comp Y1c Y1s Y20 Y2c Y2s c s, comp 0 0 Z20 Z2c Z2s c s⟩
    let eθ : V3 K := ⟨compθ X1c 0 X2c X2s c s, compθ Y1c Y1s Y2c Y2s c s, compθ 0 0 Z2c Z2s c s⟩
    let er : V3 K := ⟨dr pos.n, dr pos.b, dr pos.t⟩
    let eφ : V3 K := ⟨fun k => D (pos.n k) + lp * (kap * pos.t k - tau * pos.b k),
                       fun k => D (pos.b k) + lp * tau * pos.n k,
                       fun k => D (pos.t k) - lp * kap * pos.n k + (if k = 0 then lp else 0)⟩
    let sqrtg := dotS er (crossS eθ eφ)
    let g0 := X1c*Y1s*lp
    let g1c := -(X1c)^2*Y1s*kap*lp + 2*X1c*Y2s*lp + 2*X20*Y1s*lp + 2*X2c*Y1s*lp - 2*X2s*Y1c*lp
    let g20 := -(X1c)^2*Y2s*kap*lp - (X1c)^2*Z2s*lp*tau - 2*X1c*X20*Y1s*kap*lp - X1c*X2c*Y1s*kap*lp + X1c*X2s*Y1c*kap*lp + X1c*Y1s*(D Z20) - X1c*Z20*(D Y1s) + X1c*Z2c*(D Y1s) - X1c*Z2s*(D Y1c) + 4*X2c*Y2s*lp - 4*X2s*Y2c*lp - (Y1c)^2*Z2s*lp*tau + 2*Y1c*Y1s*Z2c*lp*tau + Y1c*Z2s*(D X1c) + (Y1s)^2*Z2s*lp*tau - Y1s*Z20*(D X1c) - Y1s*Z2c*(D X1c)
    let g2s := -(X1c)^2*Y20*kap*lp + (X1c)^2*Y2c*kap*lp - (X1c)^2*Z20*lp*tau + (X1c)^2*Z2c*lp*tau + X1c*X20*Y1c*kap*lp - X1c*X2c*Y1c*kap*lp - 2*X1c*X2s*Y1s*kap*lp + X1c*Y1s*(D Z2s) - X1c*Z20*(D Y1c) + X1c*Z2c*(D Y1c) - X1c*Z2s*(D Y1s) - 4*X20*Y2c*lp + 4*X2c*Y20*lp - (Y1c)^2*Z20*lp*tau + (Y1c)^2*Z2c*lp*tau + Y1c*Z20*(D X1c) - Y1c*Z2c*(D X1c) + (Y1s)^2*Z20*lp*tau + (Y1s)^2*Z2c*lp*tau - Y1s*Z2s*(D X1c)
    let g2c := -(X1c)^2*Y2s*kap*lp - (X1c)^2*Z2s*lp*tau - X1c*X20*Y1s*kap*lp - 2*X1c*X2c*Y1s*kap*lp + X1c*X2s*Y1c*kap*lp + X1c*Y1s*(D Z2c) + X1c*Z20*(D Y1s) - X1c*Z2c*(D Y1s) - X1c*Z2s*(D Y1c) + 4*X20*Y2s*lp - 4*X2s*Y20*lp - (Y1c)^2*Z2s*lp*tau + 2*Y1c*Y1s*Z20*lp*tau + Y1c*Z2s*(D X1c) - (Y1s)^2*Z2s*lp*tau - Y1s*Z20*(D X1c) - Y1s*Z2c*(D X1c)
    let eq3 := X1c*Y20 - X1c*Y2c - X20*Y1c + X2c*Y1c + X2s*Y1s
    sqrtg 1 = g0 ∧ sqrtg 2 = g1c * c + 2 * lp * eq3 * s ∧ sqrtg 3 = g20 + g2c * (c*c - s*s) + g2s * (2*c*s) := by
  intro pos eθ er eφ sqrtg g0 g1c g20 g2s g2c eq3
  have d2 : D (2:K) = 0 := by simpa using D.map_natCast 2
  refine ⟨?_, ?_, ?_⟩
  · linear_combination (norm := (simp [sqrtg, g0, g1c, g20, g2s, g2c, eq3, er, eθ, eφ, pos, mulS, dotS, crossS, dr, comp, compθ, Finset.sum_range_succ, dc, ds, d2, -mul_eq_zero] <;> ring)) (X1c*Y1s*lp) * hcs
  · linear_combination (norm := (simp [sqrtg, g0, g1c, g20, g2s, g2c, eq3, er, eθ, eφ, pos, mulS, dotS, crossS, dr, comp, compθ, Finset.sum_range_succ, dc, ds, d2, -mul_eq_zero] <;> ring)) (-(X1c)^2*Y1s*c*kap*lp - 2*X1c*Y2c*lp*s + 2*X1c*Y2s*c*lp + 2*X2c*Y1c*lp*s + 2*X2c*Y1s*c*lp - 2*X2s*Y1c*c*lp + 2*X2s*Y1s*lp*s) * hcs
  · linear_combination (norm := (simp [sqrtg, g0, g1c, g20, g2s, g2c, eq3, er, eθ, eφ, pos, mulS, dotS, crossS, dr, comp, compθ, Finset.sum_range_succ, dc, ds, d2, -mul_eq_zero] <;> ring)) (2*(X1c)^2*Y2c*c*kap*lp*s - 2*(X1c)^2*Y2s*(c)^2*kap*lp - (X1c)^2*Y2s*kap*lp + 2*(X1c)^2*Z2c*c*lp*s*tau - 2*(X1c)^2*Z2s*(c)^2*lp*tau - (X1c)^2*Z2s*lp*tau - 2*X1c*X20*Y1s*kap*lp - 2*X1c*X2c*Y1c*c*kap*lp*s - 3*X1c*X2c*Y1s*(c)^2*kap*lp + X1c*X2c*Y1s*kap*lp*(s)^2 - X1c*X2c*Y1s*kap*lp + 2*X1c*X2s*Y1c*(c)^2*kap*lp + X1c*X2s*Y1c*kap*lp - 4*X1c*X2s*Y1s*c*kap*lp*s + X1c*Y1s*(c)^2*(D Z2c) + 2*X1c*Y1s*c*(D Z2s)*s + X1c*Y1s*(D Z20) - X1c*Y1s*(D Z2c)*(s)^2 - X1c*Z20*(D Y1s) + 2*X1c*Z2c*c*(D Y1c)*s + 2*X1c*Z2c*(D Y1s)*(s)^2 + X1c*Z2c*(D Y1s) - 2*X1c*Z2s*(c)^2*(D Y1c) - 2*X1c*Z2s*c*(D Y1s)*s - X1c*Z2s*(D Y1c) + 4*X2c*Y2s*(c)^2*lp + 4*X2c*Y2s*lp*(s)^2 + 4*X2c*Y2s*lp - 4*X2s*Y2c*(c)^2*lp - 4*X2s*Y2c*lp*(s)^2 - 4*X2s*Y2c*lp + 2*(Y1c)^2*Z2c*c*lp*s*tau - 2*(Y1c)^2*Z2s*(c)^2*lp*tau - (Y1c)^2*Z2s*lp*tau + 2*Y1c*Y1s*Z2c*(c)^2*lp*tau + 2*Y1c*Y1s*Z2c*lp*(s)^2*tau + 2*Y1c*Y1s*Z2c*lp*tau - 2*Y1c*Z2c*c*(D X1c)*s + 2*Y1c*Z2s*(c)^2*(D X1c) + Y1c*Z2s*(D X1c) + 2*(Y1s)^2*Z2c*c*lp*s*tau + 2*(Y1s)^2*Z2s*lp*(s)^2*tau + (Y1s)^2*Z2s*lp*tau - Y1s*Z20*(D X1c) - 2*Y1s*Z2c*(c)^2*(D X1c) - Y1s*Z2c*(D X1c) - 2*Y1s*Z2s*c*(D X1c)*s) * hcs

/-- inputs of `calculate_r_singularity` wired as attributes of the object: `d_X1c_d_varphi = D X1c`, … -/
def wire (D : K → K) (B0 G0 X1c Y1c Y1s X20 X2c X2s Y20 Y2c Y2s Z20 Z2c Z2s kap tau : K) : Gen.RSing.In K :=
  { B0 := B0, G0 := G0, X1c := X1c, X20 := X20, X2c := X2c, X2s := X2s, Y1c := Y1c, Y1s := Y1s, Y20 := Y20, Y2c := Y2c,
    Y2s := Y2s, Z20 := Z20, Z2c := Z2c, Z2s := Z2s, curvature := kap, d_X1c_d_varphi := D X1c, d_Y1c_d_varphi := D Y1c,
    d_Y1s_d_varphi := D Y1s, d_Z20_d_varphi := D Z20, d_Z2c_d_varphi := D Z2c, d_Z2s_d_varphi := D Z2s, torsion := tau }

/-- **The Jacobian coefficients of the code are those of the triple product.**  For the position vector
`r = r0 + X n + Y b + Z t` with `X = r X1c cosϑ + r²(X20 + X2c cos2ϑ + X2s sin2ϑ)` etc. (Frenet–Serret with
`ℓ' = lp = |G0|/B0`), the coefficients of `r¹, r², r³` of `∂r/∂r · (∂r/∂ϑ × ∂r/∂φ)` are the GENERATED
`Gen.RSing.g0`, `g1c cosϑ (+ 2ℓ'·eq3·sinϑ, which vanishes by the O(r²) constraint eq3)`, and
`g20 + g2c cos2ϑ + g2s sin2ϑ`. -/
theorem g_coeffs_are_triple_product (D : Derivation ℚ K K) (o : Ops K)
    (B0 G0 X1c Y1c Y1s X20 X2c X2s Y20 Y2c Y2s Z20 Z2c Z2s kap tau lp c s : K) (hlp : o.abs G0 / B0 = lp)
    (hcs : c^2 + s^2 - 1 = 0) (dc : D c = 0) (ds : D s = 0) :
    let pos : V3 K := ⟨comp X1c 0 X20 X2c X2s c s, comp Y1c Y1s Y20 Y2c Y2s c s, comp 0 0 Z20 Z2c Z2s c s⟩
    let eθ : V3 K := ⟨compθ X1c 0 X2c X2s c s, compθ Y1c Y1s Y2c Y2s c s, compθ 0 0 Z2c Z2s c s⟩
    let er : V3 K := ⟨dr pos.n, dr pos.b, dr pos.t⟩
    let eφ : V3 K := ⟨fun k => D (pos.n k) + lp * (kap * pos.t k - tau * pos.b k),
                       fun k => D (pos.b k) + lp * tau * pos.n k,
                       fun k => D (pos.t k) - lp * kap * pos.n k + (if k = 0 then lp else 0)⟩
    let sqrtg := dotS er (crossS eθ eφ)
    let i := wire D B0 G0 X1c Y1c Y1s X20 X2c X2s Y20 Y2c Y2s Z20 Z2c Z2s kap tau
    let eq3 := X1c*Y20 - X1c*Y2c - X20*Y1c + X2c*Y1c + X2s*Y1s
    sqrtg 1 = Gen.RSing.g0 o i ∧ sqrtg 2 = Gen.RSing.g1c o i * c + 2 * lp * eq3 * s ∧
    sqrtg 3 = Gen.RSing.g20 o i + Gen.RSing.g2c o i * (c*c - s*s) + Gen.RSing.g2s o i * (2*c*s) := by
  intro pos eθ er eφ sqrtg i eq3
  have h := g_coeffs_are_triple_product_printed D X1c Y1c Y1s X20 X2c X2s Y20 Y2c Y2s Z20 Z2c Z2s kap tau lp c s hcs dc ds
  dsimp only at h
  have e0 : Gen.RSing.g0 o i = X1c*Y1s*lp := by
    simp only [Gen.RSing.g0, i, wire, hlp]; ring
  have e1 : Gen.RSing.g1c o i = -(X1c)^2*Y1s*kap*lp + 2*X1c*Y2s*lp + 2*X20*Y1s*lp + 2*X2c*Y1s*lp - 2*X2s*Y1c*lp := by
    simp only [Gen.RSing.g1c, i, wire, hlp, Nat.cast_ofNat]; ring
  rw [e0, e1]
  refine ⟨h.1, h.2.1, h.2.2.trans ?_⟩
  simp only [Gen.RSing.g20, Gen.RSing.g2c, Gen.RSing.g2s, i, wire, hlp, Nat.cast_ofNat]
  ring
#print axioms g_coeffs_are_triple_product
end RSing
