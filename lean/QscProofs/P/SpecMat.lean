import QscProofs.P.Spec3
import Mathlib.Tactic.Ring
import Mathlib.Tactic.Linarith
import Mathlib.Tactic.FieldSimp
/-! Hand model of `spectral_diff_matrix` (odd n, interval [0,2π)) mirroring the NumPy construction
    (`topc`, `flip`, `concatenate`, `toeplitz(col1, r=-col1)`), and its closed form / circulant structure. -/
open Finset Real
namespace SpecMat

/-- `topc[i] = 1/sin((i+1) h/2)`, `h = 2π/n` -/
noncomputable def topc (n i : ℕ) : ℝ := 1 / Real.sin (((i:ℝ) + 1) * (2 * π / n) / 2)
/-- `temp = concatenate((topc, flip(topc[0:n1])))` with `n1 = n2 = (n-1)/2` for odd n -/
noncomputable def temp (n i : ℕ) : ℝ :=
  if i < (n - 1) / 2 then topc n i else topc n ((n - 1) / 2 - 1 - (i - (n - 1) / 2))
/-- `col1 = concatenate(([0], 0.5 * (-1)**kk * temp))`, `kk = 1..n-1` -/
noncomputable def col1 (n m : ℕ) : ℝ := if m = 0 then 0 else (1/2) * (-1) ^ m * temp n (m - 1)
/-- `toeplitz(col1, r=-col1)[i,j]` -/
noncomputable def Dmat (n i j : ℕ) : ℝ := if j ≤ i then col1 n (i - j) else - col1 n (j - i)

theorem col1_closed (n m : ℕ) (hn : n % 2 = 1) (hm1 : 1 ≤ m) (hm2 : m < n) : col1 n m = cOdd n m := by
  obtain ⟨k, hk⟩ : ∃ k, n = 2 * k + 1 := ⟨n / 2, by omega⟩
  have hnpos : (0:ℝ) < n := by exact_mod_cast (lt_of_le_of_lt (Nat.zero_le m) hm2)
  have hn0 : (n:ℝ) ≠ 0 := ne_of_gt hnpos
  have hm0 : m ≠ 0 := by omega
  have hhalf : (n - 1) / 2 = k := by omega
  unfold col1 cOdd temp
  rw [if_neg hm0, hhalf]
  by_cases hlt : m - 1 < k
  · rw [if_pos hlt]
    unfold topc
    have : (((m - 1 : ℕ) : ℝ) + 1) * (2 * π / n) / 2 = m * π / n := by
      rw [Nat.cast_sub hm1]; field_simp; ring
    rw [this]; ring
  · rw [if_neg hlt]
    unfold topc
    have hidx : k - 1 - (m - 1 - k) = n - 1 - m := by omega
    rw [hidx]
    have hcast : (((n - 1 - m : ℕ) : ℝ) + 1) = (n:ℝ) - m := by
      have : n - 1 - m + 1 = n - m := by omega
      have h2 : (((n - 1 - m : ℕ) : ℝ) + 1) = ((n - 1 - m + 1 : ℕ) : ℝ) := by push_cast; ring
      rw [h2, this, Nat.cast_sub hm2.le]
    rw [hcast]
    have : ((n:ℝ) - m) * (2 * π / n) / 2 = π - m * π / n := by field_simp
    rw [this, Real.sin_pi_sub]; ring

/-- circulant form: `Dmat i j = c((i + n − j) mod n)` with `c 0 = 0`, `c m = cOdd n m` -/
noncomputable def c (n m : ℕ) : ℝ := if m = 0 then 0 else cOdd n m

theorem Dmat_circulant (n i j : ℕ) (hn : n % 2 = 1) (hi : i < n) (hj : j < n) :
    Dmat n i j = c n ((i + n - j) % n) := by
  unfold Dmat c
  by_cases hji : j ≤ i
  · rw [if_pos hji]
    have : (i + n - j) % n = i - j := by
      have : i + n - j = (i - j) + n := by omega
      rw [this, Nat.add_mod_right, Nat.mod_eq_of_lt (by omega)]
    rw [this]
    by_cases h0 : i - j = 0
    · rw [if_pos h0, h0]; simp [col1]
    · rw [if_neg h0]; exact col1_closed n (i - j) hn (by omega) (by omega)
  · rw [if_neg hji]
    have hlt : i < j := by omega
    have : (i + n - j) % n = n - (j - i) := by
      have : i + n - j = n - (j - i) := by omega
      rw [this, Nat.mod_eq_of_lt (by omega)]
    rw [this]
    have h0 : n - (j - i) ≠ 0 := by omega
    rw [if_neg h0, col1_closed n (j - i) hn (by omega) (by omega)]
    rw [cOdd_reflect n (j - i) hn (by omega) (by omega)]

/-- antisymmetry of the matrix -/
theorem Dmat_antisymm (n i j : ℕ) : Dmat n j i = - Dmat n i j := by
  unfold Dmat
  by_cases h1 : j ≤ i <;> by_cases h2 : i ≤ j
  · have : i = j := by omega
    subst this; simp [col1]
  · simp [h1, h2]
  · simp [h1, h2]
  · omega
#print axioms Dmat_circulant
end SpecMat
