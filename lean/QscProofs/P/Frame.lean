import Mathlib.Analysis.SpecialFunctions.Sqrt
import Mathlib.Tactic.Ring
import Mathlib.Tactic.Linarith
import Mathlib.Tactic.Positivity
import Mathlib.Tactic.FieldSimp
import Mathlib.Tactic.LinearCombination
/-! C03: pointwise Frenet frame of `init_axis` (cylindrical components) is orthonormal and right-handed.
    Inputs are the values at one grid point of R0, R0', R0'', Z0', Z0''. -/
namespace Frame
open Real

theorem frame_orthonormal_rh (R0 R0p R0pp Z0p Z0pp : ℝ)
    (hl : 0 < R0*R0 + R0p*R0p + Z0p*Z0p) :
    let l := Real.sqrt (R0*R0 + R0p*R0p + Z0p*Z0p)            -- d_l_d_phi
    let l2 := (R0*R0p + R0p*R0pp + Z0p*Z0pp) / l                -- d2_l_d_phi2
    -- d_r_d_phi = (R0p, R0, Z0p) ; d2_r_d_phi2 = (R0pp - R0, 2 R0p, Z0pp)
    let t1 := R0p / l; let t2 := R0 / l; let t3 := Z0p / l
    let d1 := (-R0p * l2 / l + (R0pp - R0)) / (l*l)
    let d2 := (-R0 * l2 / l + 2*R0p) / (l*l)
    let d3 := (-Z0p * l2 / l + Z0pp) / (l*l)
    let kap := Real.sqrt (d1*d1 + d2*d2 + d3*d3)                -- curvature
    0 < kap →
    let n1 := d1/kap; let n2 := d2/kap; let n3 := d3/kap
    let b1 := t2*n3 - t3*n2; let b2 := t3*n1 - t1*n3; let b3 := t1*n2 - t2*n1
    t1*t1 + t2*t2 + t3*t3 = 1 ∧ n1*n1 + n2*n2 + n3*n3 = 1 ∧ t1*n1 + t2*n2 + t3*n3 = 0 ∧
    b1*b1 + b2*b2 + b3*b3 = 1 ∧ t1*b1 + t2*b2 + t3*b3 = 0 ∧ n1*b1 + n2*b2 + n3*b3 = 0 ∧
    -- right-handed: det [t n b] = 1
    t1*(n2*b3 - n3*b2) + t2*(n3*b1 - n1*b3) + t3*(n1*b2 - n2*b1) = 1 := by
  intro l l2 t1 t2 t3 d1 d2 d3 kap hk n1 n2 n3 b1 b2 b3
  have hlpos : 0 < l := Real.sqrt_pos.mpr hl
  have hll : l * l = R0*R0 + R0p*R0p + Z0p*Z0p := Real.mul_self_sqrt hl.le
  have hkk : kap * kap = d1*d1 + d2*d2 + d3*d3 := Real.mul_self_sqrt (by nlinarith [mul_self_nonneg d1, mul_self_nonneg d2, mul_self_nonneg d3])
  have hlne : l ≠ 0 := ne_of_gt hlpos
  have hkne : kap ≠ 0 := ne_of_gt hk
  have ht : t1*t1 + t2*t2 + t3*t3 = 1 := by
    simp only [t1, t2, t3]; field_simp; linarith
  have hn : n1*n1 + n2*n2 + n3*n3 = 1 := by
    simp only [n1, n2, n3]; field_simp; linarith
  have htd : t1*d1 + t2*d2 + t3*d3 = 0 := by
    simp only [t1, t2, t3, d1, d2, d3, l2]
    have hl2 : l^2 = R0*R0 + R0p*R0p + Z0p*Z0p := by rw [pow_two]; exact hll
    field_simp
    linear_combination (R0p*(R0+R0pp) + Z0p*Z0pp) * hl2
  have htn : t1*n1 + t2*n2 + t3*n3 = 0 := by
    have : t1*n1 + t2*n2 + t3*n3 = (t1*d1 + t2*d2 + t3*d3)/kap := by simp only [n1, n2, n3]; ring
    rw [this, htd]; simp
  refine ⟨ht, hn, htn, ?_, ?_, ?_, ?_⟩
  · -- |b|² = |t|²|n|² − (t·n)²
    have : b1*b1 + b2*b2 + b3*b3 = (t1*t1 + t2*t2 + t3*t3)*(n1*n1 + n2*n2 + n3*n3) - (t1*n1 + t2*n2 + t3*n3)^2 := by
      simp only [b1, b2, b3]; ring
    rw [this, ht, hn, htn]; ring
  · simp only [b1, b2, b3]; ring
  · simp only [b1, b2, b3]; ring
  · have : t1*(n2*b3 - n3*b2) + t2*(n3*b1 - n1*b3) + t3*(n1*b2 - n2*b1)
        = (t1*t1 + t2*t2 + t3*t3)*(n1*n1 + n2*n2 + n3*n3) - (t1*n1 + t2*n2 + t3*n3)^2 := by
      simp only [b1, b2, b3]; ring
    rw [this, ht, hn, htn]; ring
#print axioms frame_orthonormal_rh
end Frame
