import Mathlib.Analysis.SpecialFunctions.Sqrt
import Mathlib.Tactic.Ring
import Mathlib.Tactic.Linarith
import Mathlib.Tactic.Positivity
import Mathlib.Tactic.FieldSimp
/-! C03: the reported elongation (p + √(p² − 4q²)) / (2|q|) with p = ‖M‖_F², q = det M
    is ≥ 1 and satisfies e + 1/e = p/|q| – i.e. it is the ratio σ₁/σ₂ of the singular values of
    M = [[X1s, X1c],[Y1s, Y1c]]  (σ₁² + σ₂² = p, σ₁σ₂ = |q|). -/
namespace Elong
open Real

noncomputable def elong (X1s X1c Y1s Y1c : ℝ) : ℝ :=
  ((X1s*X1s + X1c*X1c + Y1s*Y1s + Y1c*Y1c)
    + Real.sqrt ((X1s*X1s + X1c*X1c + Y1s*Y1s + Y1c*Y1c)*(X1s*X1s + X1c*X1c + Y1s*Y1s + Y1c*Y1c)
        - 4*(X1s*Y1c - X1c*Y1s)*(X1s*Y1c - X1c*Y1s))) / (2 * |X1s*Y1c - X1c*Y1s|)

theorem elongation_char (X1s X1c Y1s Y1c : ℝ) (hq : X1s*Y1c - X1c*Y1s ≠ 0) :
    1 ≤ elong X1s X1c Y1s Y1c ∧
    elong X1s X1c Y1s Y1c + 1 / elong X1s X1c Y1s Y1c
      = (X1s*X1s + X1c*X1c + Y1s*Y1s + Y1c*Y1c) / |X1s*Y1c - X1c*Y1s| := by
  set p := X1s*X1s + X1c*X1c + Y1s*Y1s + Y1c*Y1c with hp
  set q := X1s*Y1c - X1c*Y1s with hqd
  set a := |q| with ha
  have hapos : 0 < a := abs_pos.mpr hq
  have haa : a * a = q * q := abs_mul_abs_self q
  have h1 : 0 ≤ p - 2*q := by
    have : p - 2*q = (X1s - Y1c)^2 + (X1c + Y1s)^2 := by rw [hp, hqd]; ring
    rw [this]; positivity
  have h2 : 0 ≤ p + 2*q := by
    have : p + 2*q = (X1s + Y1c)^2 + (X1c - Y1s)^2 := by rw [hp, hqd]; ring
    rw [this]; positivity
  have hpa : 2 * a ≤ p := by
    rcases abs_cases q with ⟨h, _⟩ | ⟨h, _⟩ <;> rw [ha, h] <;> linarith
  have hrad : 0 ≤ p*p - 4*q*q := by nlinarith
  set s := Real.sqrt (p*p - 4*q*q) with hs
  have hs0 : 0 ≤ s := Real.sqrt_nonneg _
  have hss : s * s = p*p - 4*q*q := Real.mul_self_sqrt hrad
  have hden : 0 < p + s := by linarith
  have he : elong X1s X1c Y1s Y1c = (p + s) / (2 * a) := rfl
  rw [he]
  constructor
  · rw [le_div_iff₀ (by positivity)]; linarith
  · have hne : p + s ≠ 0 := ne_of_gt hden
    have hane : a ≠ 0 := ne_of_gt hapos
    field_simp
    nlinarith [hss, haa]
#print axioms elongation_char
end Elong
