import Mathlib.RingTheory.Derivation.Basic
import Mathlib.Algebra.BigOperators.Intervals
import Mathlib.Tactic.FieldSimp
import Mathlib.Tactic.Ring
import Mathlib.Tactic.LinearCombination
import Mathlib.Algebra.Algebra.Rat
/-! C01 (order r2), two of the obligation families: the Jacobian equation at O(r²) and the radial covariant
    component at O(r) – from the second-order position vector alone; second-order data are ATOMS related only
    by the code's algebraic constraints (eq3, eq4) and the definitions of Z20, Z2s, Z2c. -/
open Finset
namespace NearAxis2
variable {K : Type} [Field K] [CharZero K]
abbrev Ser (K : Type) := ℕ → K
def mulS (a b : Ser K) : Ser K := fun k => ∑ i ∈ range (k+1), a i * b (k - i)
structure V3 (K : Type) where (n b t : Ser K)
def dotS (u v : V3 K) : Ser K := fun k => mulS u.n v.n k + mulS u.b v.b k + mulS u.t v.t k
def crossS (u v : V3 K) : V3 K :=
  ⟨fun k => mulS u.b v.t k - mulS u.t v.b k, fun k => mulS u.t v.n k - mulS u.n v.t k, fun k => mulS u.n v.b k - mulS u.b v.n k⟩
def dr (a : Ser K) : Ser K := fun k => ((k:ℕ) + 1 : ℕ) * a (k+1)
/-- harmonic data of one component: coefficient of r (cos, sin) and of r² (0, cos2, sin2) -/
def comp (a1c a1s a20 a2c a2s c s : K) : Ser K := fun k =>
  if k = 1 then a1c * c + a1s * s else if k = 2 then a20 + a2c * (c*c - s*s) + a2s * (2*c*s) else 0
/-- its ϑ-derivative -/
def compθ (a1c a1s a2c a2s c s : K) : Ser K := fun k =>
  if k = 1 then -(a1c * s) + a1s * c else if k = 2 then 2 * (-(a2c * (2*c*s)) + a2s * (c*c - s*s)) else 0

theorem C01_r2_J_R1 (D : Derivation ℚ K K)
    (X1c Y1c Y1s X20 X2c X2s Y20 Y2c Y2s Z20 Z2c Z2s kap tau lp iotaN B0 etabar sG spsi B20 B2c B2s c s : K)
    (hcs : c*c + s*s = 1) (dc : D c = 0) (ds : D s = 0)
    (h1 : X1c * Y1s = sG * spsi) (hk : X1c * kap = etabar)
    (heq3 : -X1c*Y2c + X1c*Y20 + X2s*Y1s + X2c*Y1c - X20*Y1c = 0)
    (heq4 : X1c*Y2s + X2c*Y1s - X2s*Y1c + X20*Y1s + sG*spsi*X1c*kap/2 = 0)
    (hZ20 : 8*lp*Z20 + D (X1c*X1c + Y1c*Y1c + Y1s*Y1s) = 0)
    (hZ2s : 8*lp*Z2s + (D (2*Y1s*Y1c) - 2*iotaN*(X1c*X1c + Y1c*Y1c - Y1s*Y1s)) = 0)
    (hZ2c : 8*lp*Z2c + (D (X1c*X1c + Y1c*Y1c - Y1s*Y1s) + 2*iotaN*(2*Y1s*Y1c)) = 0) :
    let pos : V3 K := ⟨comp X1c 0 X20 X2c X2s c s, comp Y1c Y1s Y20 Y2c Y2s c s, comp 0 0 Z20 Z2c Z2s c s⟩
    let eθ : V3 K := ⟨compθ X1c 0 X2c X2s c s, compθ Y1c Y1s Y2c Y2s c s, compθ 0 0 Z2c Z2s c s⟩
    let er : V3 K := ⟨dr pos.n, dr pos.b, dr pos.t⟩
    let eφ : V3 K := ⟨fun k => D (pos.n k) + lp * (kap * pos.t k - tau * pos.b k),
                       fun k => D (pos.b k) + lp * tau * pos.n k,
                       fun k => D (pos.t k) - lp * kap * pos.n k + (if k = 0 then lp else 0)⟩
    let sqrtg := dotS er (crossS eθ eφ)
    let B : Ser K := fun k => if k = 0 then B0 else if k = 1 then B0 * etabar * c
                              else if k = 2 then B20 + B2c * (c*c - s*s) + B2s * (2*c*s) else 0
    let B2 := mulS B B
    let w : V3 K := ⟨fun k => eφ.n k + iotaN * eθ.n k, fun k => eφ.b k + iotaN * eθ.b k, fun k => eφ.t k + iotaN * eθ.t k⟩
    -- Jacobian equation at O(r²), every harmonic (ψ′(G+ιI) has no r² term):
    mulS sqrtg B2 2 = 0
    -- radial covariant component at O(r), every harmonic (β ψ′ (G+ιI) starts at r²):
    ∧ mulS B2 (dotS w er) 1 = 0 := by
  intro pos eθ er eφ sqrtg B B2 w
  have hDZ20 := hZ20; have hDZ2s := hZ2s; have hDZ2c := hZ2c
  simp only [map_add, map_sub, map_mul, Derivation.leibniz, smul_eq_mul] at hDZ20 hDZ2s hDZ2c
  have h2 : D (2:K) = 0 := by simpa using D.map_natCast 2
  simp only [h2, mul_zero, zero_mul, add_zero, zero_add] at hDZ2s
  constructor
  · simp [sqrtg, B2, B, er, eθ, eφ, pos, mulS, dotS, crossS, dr, comp, compθ, Finset.sum_range_succ, dc, ds, -mul_eq_zero]
    linear_combination
      (-B0^2*lp*(X1c^2*Y1s*c*kap - 2*X1c*Y1s*c*etabar + 2*X1c*Y2c*s - 2*X1c*Y2s*c - 2*X2c*Y1c*s - 2*X2c*Y1s*c + 2*X2s*Y1c*c - 2*X2s*Y1s*s)) * hcs
      + (2*B0^2*c*lp) * heq4 + (2*B0^2*lp*s) * heq3 + (-2*B0^2*X1c*Y1s*c*lp) * hk + (B0^2*X1c*c*kap*lp) * h1
  · simp [w, B2, B, er, eθ, eφ, pos, mulS, dotS, dr, comp, compθ, Finset.sum_range_succ, dc, ds, -mul_eq_zero]
    linear_combination
      (B0^2*(X1c*D X1c + Y1c*Y1s*iotaN + Y1c*D Y1c + 2*Z2c*lp)) * hcs
      + (B0^2/4) * hDZ20 + (B0^2*c*s/2) * hDZ2s + (-B0^2*(2*s^2 - 1)/4) * hDZ2c
#print axioms C01_r2_J_R1
end NearAxis2
