import Mathlib.Algebra.Module.LinearMap.Defs
import Mathlib.Algebra.Module.Pi
import Mathlib.Data.Real.Basic
import Mathlib.Tactic.Ring
import Mathlib.Tactic.Linarith
/-! C02: the Jacobian handed to Newton is the exact derivative of the σ-residual, at EVERY state vector,
    for every grid size and every linear differentiation operator (discrete-exact carrier). -/
namespace SigmaEq
variable {n : ℕ}
abbrev Arr (n : ℕ) := Fin (n+1) → ℝ

/-- `sigma = np.copy(x); sigma[0] = sigma0` -/
def sig (sigma0 : ℝ) (x : Arr n) : Arr n := Function.update x 0 sigma0
/-- zero slot 0 -/
def P (d : Arr n) : Arr n := Function.update d 0 0

/-- `_residual` : D σ + (ι + N)(ees² + 1 + σ²) − c, ι = x[0] -/
def residual (D : Arr n →ₗ[ℝ] Arr n) (N sigma0 : ℝ) (ees c : Arr n) (x : Arr n) : Arr n :=
  fun j => D (sig sigma0 x) j + (x 0 + N) * (ees j * ees j + 1 + sig sigma0 x j * sig sigma0 x j) - c j

/-- `_jacobian` applied to an increment: (D + diag((ι+N)·2σ)) on slots ≥ 1, column 0 = ees²+1+σ² -/
def jac (D : Arr n →ₗ[ℝ] Arr n) (N sigma0 : ℝ) (ees : Arr n) (x d : Arr n) : Arr n :=
  fun j => D (P d) j + (x 0 + N) * 2 * sig sigma0 x j * P d j
           + d 0 * (ees j * ees j + 1 + sig sigma0 x j * sig sigma0 x j)

/-- explicit quadratic remainder -/
def rem (N sigma0 : ℝ) (x d : Arr n) : Arr n :=
  fun j => d 0 * (2 * sig sigma0 x j * P d j + P d j * P d j) + (x 0 + N) * (P d j * P d j)

theorem sig_add (sigma0 : ℝ) (x d : Arr n) : sig sigma0 (x + d) = sig sigma0 x + P d := by
  funext j
  by_cases h : j = 0
  · subst h; simp [sig, P]
  · simp [sig, P, Function.update_of_ne h]

theorem jacobian_exact (D : Arr n →ₗ[ℝ] Arr n) (N sigma0 : ℝ) (ees c x d : Arr n) :
    residual D N sigma0 ees c (x + d)
      = residual D N sigma0 ees c x + jac D N sigma0 ees x d + rem N sigma0 x d := by
  funext j
  simp only [residual, jac, rem, Pi.add_apply, sig_add, map_add]
  ring
#print axioms jacobian_exact
end SigmaEq
