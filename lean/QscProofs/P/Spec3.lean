import QscProofs.P.Spec2
open Finset Real

lemma cOdd_reflect (n m : ℕ) (hn : n % 2 = 1) (hm1 : 1 ≤ m) (hm2 : m < n) :
    cOdd n (n - m) = - cOdd n m := by
  unfold cOdd
  have hnpos : (0:ℝ) < n := by exact_mod_cast (lt_of_le_of_lt (Nat.zero_le m) hm2)
  have hcast : ((n - m : ℕ) : ℝ) = (n:ℝ) - m := by rw [Nat.cast_sub hm2.le]
  have hsin : Real.sin (((n - m : ℕ) : ℝ) * π / n) = Real.sin (m * π / n) := by
    rw [hcast]
    have : ((n:ℝ) - m) * π / n = π - m * π / n := by field_simp
    rw [this, Real.sin_pi_sub]
  have hpow : (-1 : ℝ) ^ (n - m) = - (-1) ^ m := by
    obtain ⟨k, hk⟩ : ∃ k, n = 2 * k + 1 := ⟨n / 2, by omega⟩
    have : n - m + m = 2 * k + 1 := by omega
    have h2 : (-1 : ℝ) ^ (n - m) * (-1) ^ m = -1 := by
      rw [← pow_add, this, pow_succ, pow_mul]; simp
    have h3 : ((-1 : ℝ) ^ m) * ((-1 : ℝ) ^ m) = 1 := by
      rw [← pow_add, ← two_mul, pow_mul]; simp
    calc (-1 : ℝ) ^ (n - m) = (-1 : ℝ) ^ (n - m) * ((-1) ^ m * (-1) ^ m) := by rw [h3, mul_one]
      _ = ((-1 : ℝ) ^ (n - m) * (-1) ^ m) * (-1) ^ m := by ring
      _ = - (-1) ^ m := by rw [h2]; ring
  rw [hsin, hpow]; ring

/-- the symbol on cosines vanishes (pairing m ↔ n - m) -/
theorem symbol_cos (n p : ℕ) (hn : n % 2 = 1) :
    ∑ m ∈ Ico 1 n, cOdd n m * Real.cos (p * (m * (2 * π / n))) = 0 := by
  apply Finset.sum_involution (fun m _ => n - m)
  · intro m hm
    rw [Finset.mem_Ico] at hm
    have hnpos : (0:ℝ) < n := by exact_mod_cast (lt_of_le_of_lt (Nat.zero_le m) hm.2)
    rw [cOdd_reflect n m hn hm.1 hm.2]
    have hcast : ((n - m : ℕ) : ℝ) = (n:ℝ) - m := by rw [Nat.cast_sub hm.2.le]
    have : (p:ℝ) * (((n - m : ℕ) : ℝ) * (2 * π / n)) = p * (2 * π) - p * (m * (2 * π / n)) := by
      rw [hcast]; field_simp
    rw [this, Real.cos_nat_mul_two_pi_sub]
    ring
  · intro m hm _
    rw [Finset.mem_Ico] at hm
    omega
  · intro m hm
    rw [Finset.mem_Ico] at hm ⊢
    omega
  · intro m hm
    rw [Finset.mem_Ico] at hm
    omega
#print axioms symbol_cos
