import QscModel.Gen.RSing
import QscModel.Hand.RSing
import QscProofs.P.C12g
import Mathlib.Analysis.SpecialFunctions.Sqrt
import Mathlib.Analysis.SpecialFunctions.Trigonometric.Basic
import Mathlib.Analysis.SpecialFunctions.Trigonometric.Deriv
import Mathlib.Tactic.Ring
import Mathlib.Tactic.Linarith
import Mathlib.Tactic.Positivity
import Mathlib.Tactic.FieldSimp
import Mathlib.Tactic.LinearCombination
import Mathlib.Tactic.NormNum
import Mathlib.Tactic.SplitIfs
/-!
# C12 – the singularity radius `r_singularity`

Statements about
* the **generated** definitions `Gen.RSing.K0 … K4c`, `Gen.RSing.coefficients_0 … coefficients_4`
  (regenerated from `calculate_r_singularity` on every run), and
* the hand model `Hand.RSing` of the root-selection loop (tied to the implementation by the bit-exact Float
  correspondence `hand rsing`), instantiated at the carrier `ℝ` (`realSc`).

`ĝ(r,θ) = g0 + r g1c cos θ + r² (g20 + g2s sin 2θ + g2c cos 2θ)` is `sqrt(g)/r` truncated after three orders
(`QscProofs/P/C12g.lean`: the g's are the coefficients of the triple product of the position vector's derivatives).

* `trig_consistent`, `trig_unit_iff`   : the `(sinθ, cosθ, sin2θ, cos2θ)` built by the loop are consistent.
* `dghat_is_derivative`, `quartic_is_resultant` : eliminating `r` from `ĝ = 0 = ∂ĝ/∂θ` gives the K–equation, and
  then `sin 2θ` is a root of the quartic handed to `polyroots`.
* `quadratic_selected`, `linear_selected`, `selected_is_root`, `candidate_cases` : accepted radii are exact roots.
* `point_eq`, `selected_is_min_of_candidates`, `sentinel_iff_no_candidate`, `point_pos`, `scalar_is_grid_min`.
* `reported_cases`, `varpi_correct`, `reported_le_singular` : the reported value is `≤` every singular radius whose
  `sin 2θ` is in the root list (completeness of the loop at `ℝ`, with its two explicit caveats), for the scalars
  `coefOf o i` taken from the generated definitions.
* `QscProofs/P/C12g.lean` (`RSing.g_coeffs_are_triple_product`): the generated `g0 … g2c` are the coefficients of the
  triple product of the position vector's derivatives.
-/
namespace C12
open Hand.RSing
set_option maxHeartbeats 1000000

/-- the carrier `ℝ`: exact arithmetic, the literals of the source as rationals -/
noncomputable def realSc : Sc ℝ where
  sqrt := Real.sqrt
  abs := fun x => |x|
  lt := fun a b => decide (a < b)
  le := fun a b => decide (a ≤ b)
  zero := 0
  one := 1
  two := 2
  four := 4
  half := 1 / 2
  tolImag := 1 / 10 ^ 7
  tolSanity := 1 / 10 ^ 13
  tolDen := 1 / 10 ^ 8
  tolRes := 1 / 10 ^ 5
  tolA := 1 / 10 ^ 13
  huge := 10 ^ 100

/-! ## (1) the trigonometric reconstruction -/

/-- `varpi = ±1` -/
theorem varpi_cases (c : Coef ℝ) (w : ℝ) : varpi realSc c w = -1 ∨ varpi realSc c w = 1 := by
  unfold varpi
  split_ifs
  · left; rfl
  · right; rfl

/-- `cos2theta² = 1 − sin2theta²` for the `cos2theta = varpi·sqrt(1 − sin2theta²)` of the loop (either `varpi`) -/
theorem cos2_sq (c : Coef ℝ) (w : ℝ) (hw : |w| ≤ 1) : cos2 realSc c w ^ 2 = 1 - w ^ 2 := by
  have h0 : 0 ≤ 1 - w * w := by
    have := abs_le.mp hw
    nlinarith
  have hs : Real.sqrt (1 - w * w) ^ 2 = 1 - w * w := Real.sq_sqrt h0
  have e : cos2 realSc c w = varpi realSc c w * Real.sqrt (1 - w * w) := rfl
  rw [e, mul_pow, hs]
  rcases varpi_cases c w with h | h <;> rw [h] <;> ring

theorem sincos_pos (w x vs : ℝ) (h : 0 < x) :
    sincos realSc w x vs = (w / (2 * (vs * Real.sqrt (1 / 2 * (1 + x)))), vs * Real.sqrt (1 / 2 * (1 + x))) := by
  simp [sincos, realSc, h]

theorem sincos_nonpos (w x vs : ℝ) (h : ¬ 0 < x) :
    sincos realSc w x vs = (vs * Real.sqrt (1 / 2 * (1 - x)), w / (2 * (vs * Real.sqrt (1 / 2 * (1 - x))))) := by
  simp [sincos, realSc, h]

/-- Both branches of `get_cos_from_cos2`, both `varsigma`: for `sin2theta = w`, `cos2theta = x` with `x² = 1 − w²`
the divisor (`2*costheta`, resp. `2*sintheta`) does not vanish (consequence of the branch condition), and the
constructed `(sintheta, costheta)` satisfy the double-angle identities and `sin² + cos² = 1` **exactly**. -/
theorem trig_consistent (w x vs : ℝ) (hx : x ^ 2 = 1 - w ^ 2) (hvs : vs = -1 ∨ vs = 1) :
    let st := (sincos realSc w x vs).1
    let ct := (sincos realSc w x vs).2
    (0 < x → 2 * ct ≠ 0) ∧ (¬ 0 < x → 2 * st ≠ 0) ∧
    w = 2 * st * ct ∧ x = ct ^ 2 - st ^ 2 ∧ st ^ 2 + ct ^ 2 = 1 := by
  have hvs2 : vs ^ 2 = 1 := by rcases hvs with h | h <;> rw [h] <;> norm_num
  have hvs0 : vs ≠ 0 := by rcases hvs with h | h <;> rw [h] <;> norm_num
  have hx1 : x ≤ 1 ∧ -1 ≤ x := by constructor <;> nlinarith [sq_nonneg w]
  by_cases hpos : 0 < x
  · have hq : 0 < 1 / 2 * (1 + x) := by linarith
    have hs2 : Real.sqrt (1 / 2 * (1 + x)) ^ 2 = 1 / 2 * (1 + x) := Real.sq_sqrt hq.le
    have hs0 : Real.sqrt (1 / 2 * (1 + x)) ≠ 0 := (Real.sqrt_pos.mpr hq).ne'
    have hct : vs * Real.sqrt (1 / 2 * (1 + x)) ≠ 0 := mul_ne_zero hvs0 hs0
    have hct2 : (vs * Real.sqrt (1 / 2 * (1 + x))) ^ 2 = 1 / 2 * (1 + x) := by rw [mul_pow, hvs2, hs2]; ring
    rw [sincos_pos w x vs hpos]
    generalize vs * Real.sqrt (1 / 2 * (1 + x)) = ct at hct hct2
    have hst2 : (w / (2 * ct)) ^ 2 = 1 / 2 * (1 - x) := by
      have hw2 : w ^ 2 = (2 * ct) ^ 2 * (1 / 2 * (1 - x)) := by rw [mul_pow, hct2]; linear_combination hx
      rw [div_pow, hw2]; field_simp
    refine ⟨fun _ => mul_ne_zero two_ne_zero hct, fun h => absurd hpos h, ?_, ?_, ?_⟩
    · show w = 2 * (w / (2 * ct)) * ct
      field_simp
    · show x = ct ^ 2 - (w / (2 * ct)) ^ 2
      linear_combination hst2 - hct2
    · show (w / (2 * ct)) ^ 2 + ct ^ 2 = 1
      linear_combination hst2 + hct2
  · have hq : 0 < 1 / 2 * (1 - x) := by linarith [not_lt.mp hpos]
    have hs2 : Real.sqrt (1 / 2 * (1 - x)) ^ 2 = 1 / 2 * (1 - x) := Real.sq_sqrt hq.le
    have hs0 : Real.sqrt (1 / 2 * (1 - x)) ≠ 0 := (Real.sqrt_pos.mpr hq).ne'
    have hst : vs * Real.sqrt (1 / 2 * (1 - x)) ≠ 0 := mul_ne_zero hvs0 hs0
    have hst2 : (vs * Real.sqrt (1 / 2 * (1 - x))) ^ 2 = 1 / 2 * (1 - x) := by rw [mul_pow, hvs2, hs2]; ring
    rw [sincos_nonpos w x vs hpos]
    generalize vs * Real.sqrt (1 / 2 * (1 - x)) = st at hst hst2
    have hct2 : (w / (2 * st)) ^ 2 = 1 / 2 * (1 + x) := by
      have hw2 : w ^ 2 = (2 * st) ^ 2 * (1 / 2 * (1 + x)) := by rw [mul_pow, hst2]; linear_combination hx
      rw [div_pow, hw2]; field_simp
    refine ⟨fun h => absurd h hpos, fun _ => mul_ne_zero two_ne_zero hst, ?_, ?_, ?_⟩
    · show w = 2 * st * (w / (2 * st))
      field_simp
    · show x = (w / (2 * st)) ^ 2 - st ^ 2
      linear_combination hst2 - hct2
    · show st ^ 2 + (w / (2 * st)) ^ 2 = 1
      linear_combination hst2 + hct2

/-- For the `cos2theta` the loop constructs: `sin²θ + cos²θ = 1` holds **exactly when** `|sin2theta| ≤ 1`
(this is why roots with `|w| > 1` must be discarded before the sanity test). -/
theorem trig_unit_iff (c : Coef ℝ) (w vs : ℝ) (hvs : vs = -1 ∨ vs = 1) :
    let x := cos2 realSc c w
    (sincos realSc w x vs).1 ^ 2 + (sincos realSc w x vs).2 ^ 2 = 1 ↔ |w| ≤ 1 := by
  intro x
  constructor
  · intro h
    by_contra hw
    have hw' : 1 < |w| := not_le.mp hw
    have hw2 : 1 < w ^ 2 := by
      have := sq_abs w
      nlinarith [abs_nonneg w]
    have hx : x = 0 := by
      have : Real.sqrt (1 - w * w) = 0 := Real.sqrt_eq_zero_of_nonpos (by nlinarith)
      simp only [x, cos2, absCos2, realSc, this, mul_zero]
    have hvs2 : vs ^ 2 = 1 := by rcases hvs with h | h <;> rw [h] <;> norm_num
    have hvs0 : vs ≠ 0 := by rcases hvs with h | h <;> rw [h] <;> norm_num
    have hq : (0:ℝ) < 1 / 2 * (1 - 0) := by norm_num
    have hs2 : Real.sqrt (1 / 2 * (1 - 0)) ^ 2 = 1 / 2 * (1 - 0) := Real.sq_sqrt hq.le
    have hs0 : Real.sqrt (1 / 2 * (1 - 0)) ≠ 0 := (Real.sqrt_pos.mpr hq).ne'
    have hst : vs * Real.sqrt (1 / 2 * (1 - 0)) ≠ 0 := mul_ne_zero hvs0 hs0
    have hst2 : (vs * Real.sqrt (1 / 2 * (1 - 0))) ^ 2 = 1 / 2 := by rw [mul_pow, hvs2, hs2]; ring
    rw [hx, sincos_nonpos w 0 vs (lt_irrefl 0)] at h
    simp only at h
    generalize vs * Real.sqrt (1 / 2 * (1 - 0)) = st at hst hst2 h
    rw [div_pow] at h
    have h4 : (2 * st) ^ 2 = 2 := by rw [mul_pow, hst2]; norm_num
    rw [h4, hst2] at h
    linarith
  · intro hw
    exact (trig_consistent w x vs (cos2_sq c w hw) hvs).2.2.2.2

/-- at `ℝ` the sanity test of the loop never fires for a root that passed the `|sin2theta| ≤ 1` filter -/
theorem sanity_never_fails (c : Coef ℝ) (w vs : ℝ) (hw : |w| ≤ 1) (hvs : vs = -1 ∨ vs = 1) :
    let x := cos2 realSc c w
    sanityFails realSc (sincos realSc w x vs).1 (sincos realSc w x vs).2 = false := by
  intro x
  have h := (trig_unit_iff c w vs hvs).mpr hw
  have h' : (sincos realSc w x vs).2 * (sincos realSc w x vs).2 + (sincos realSc w x vs).1 * (sincos realSc w x vs).1 - 1 = 0 := by
    linear_combination h
  simp only [sanityFails, realSc]
  change decide (1 / 10 ^ 13 < |(sincos realSc w x vs).2 * (sincos realSc w x vs).2 + (sincos realSc w x vs).1 * (sincos realSc w x vs).1 - 1|) = false
  rw [h', abs_zero]
  norm_num

/-! ## (2) the K–equation and the quartic are the resultant of `ĝ = 0`, `∂ĝ/∂θ = 0` -/

/-- `ĝ(r,θ) = sqrt(g)/r` truncated after its first three orders in `r` -/
noncomputable def ghat (g0 g1c g20 g2s g2c r θ : ℝ) : ℝ :=
  g0 + r * g1c * Real.cos θ + r ^ 2 * (g20 + g2s * Real.sin (2 * θ) + g2c * Real.cos (2 * θ))

/-- `∂ĝ/∂θ` -/
noncomputable def dghat (g1c g2s g2c r θ : ℝ) : ℝ :=
  -(r * g1c * Real.sin θ) + r ^ 2 * (2 * g2s * Real.cos (2 * θ) - 2 * g2c * Real.sin (2 * θ))

/-- `dghat` is the θ–derivative of `ghat` -/
theorem dghat_is_derivative (g0 g1c g20 g2s g2c r θ : ℝ) :
    HasDerivAt (fun t => ghat g0 g1c g20 g2s g2c r t) (dghat g1c g2s g2c r θ) θ := by
  have h2 : HasDerivAt (fun t : ℝ => 2 * t) 2 θ := by simpa using (hasDerivAt_id θ).const_mul (2:ℝ)
  have hs2 := (Real.hasDerivAt_sin (2 * θ)).comp θ h2
  have hc2 := (Real.hasDerivAt_cos (2 * θ)).comp θ h2
  have h := ((hasDerivAt_const θ g0).add ((Real.hasDerivAt_cos θ).const_mul (r * g1c))).add
    ((((hasDerivAt_const θ g20).add (hs2.const_mul g2s)).add (hc2.const_mul g2c)).const_mul (r ^ 2))
  refine (h.congr_deriv ?_).congr_of_eventuallyEq (Filter.Eventually.of_forall fun t => ?_)
  · simp only [dghat]; ring
  · simp only [ghat, Function.comp, Pi.add_apply]

/-- algebraic core: `s = sin θ`, `c = cos θ`; from `ĝ = 0`, `∂ĝ/∂θ = 0`, `r ≠ 0` the K–equation follows, with the
K's **as the code computes them from the g's** (certificate: `K = 4·Res_r(ĝ, ∂ĝ/∂θ / r) + q·(s²+c²−1)`) -/
theorem K_equation_alg (g0 g1c g20 g2s g2c r s c : ℝ) (hcs : s ^ 2 + c ^ 2 = 1) (hr : r ≠ 0)
    (hg : g0 + r * g1c * c + r ^ 2 * (g20 + g2s * (2 * s * c) + g2c * (c ^ 2 - s ^ 2)) = 0)
    (hd : -(r * g1c * s) + r ^ 2 * (2 * g2s * (c ^ 2 - s ^ 2) - 2 * g2c * (2 * s * c)) = 0) :
    (2*g1c*g1c*g20 - 3*g1c*g1c*g2c + 8*g0*g2c*g2c + 8*g0*g2s*g2s) + (2*g1c*g1c*g2s) * (2 * s * c)
      + (-2*g1c*g1c*g20 + 2*g1c*g1c*g2c) * (c ^ 2 - s ^ 2)
      + (g1c*g1c*g2s - 16*g0*g2c*g2s) * (2 * (2 * s * c) * (c ^ 2 - s ^ 2))
      + (g1c*g1c*g2c - 8*g0*g2c*g2c + 8*g0*g2s*g2s) * (1 - 2 * (2 * s * c) ^ 2) = 0 := by
  have hq : -(g1c * s) + r * (2 * g2s * (c ^ 2 - s ^ 2) - 2 * g2c * (2 * s * c)) = 0 := by
    have : r * (-(g1c * s) + r * (2 * g2s * (c ^ 2 - s ^ 2) - 2 * g2c * (2 * s * c))) = 0 := by linear_combination hd
    exact (mul_eq_zero.mp this).resolve_left hr
  linear_combination (4 * (2 * (g2s * (c ^ 2 - s ^ 2) - g2c * (2 * s * c))) ^ 2) * hg
    - 4 * ((g20 + g2s * (2 * s * c) + g2c * (c ^ 2 - s ^ 2)) * (2 * (g2s * (c ^ 2 - s ^ 2) - g2c * (2 * s * c))) * r
        + (g20 + g2s * (2 * s * c) + g2c * (c ^ 2 - s ^ 2)) * (g1c * s)
        + g1c * c * (2 * (g2s * (c ^ 2 - s ^ 2) - g2c * (2 * s * c)))) * hq
    + (-16*c^2*g0*g2s^2 - 4*c*g1c^2*g2s*s - 16*g0*g2s^2 - 2*g1c^2*g20 + 2*g1c^2*g2c + s^2*(-16*g0*g2s^2 + 4*g1c^2*g2c)) * hcs

/-- eliminating `cos 2θ` from the K–equation with `cos² 2θ = 1 − sin² 2θ`: `w = sin 2θ` is a root of the quartic
`(K0 + K4c + K2s w − 2 K4c w²)² − (1 − w²)(K2c + 2 K4s w)²`, whose coefficients are the code's `coefficients[k]` -/
theorem quartic_alg (K0 K2s K2c K4s K4c w x : ℝ) (hx : x ^ 2 = 1 - w ^ 2)
    (hK : K0 + K2s * w + K2c * x + K4s * (2 * w * x) + K4c * (1 - 2 * w ^ 2) = 0) :
    ((K0 + K4c) * (K0 + K4c) - K2c * K2c) + (2 * K0 * K2s + 2 * K4c * K2s - 4 * K4s * K2c) * w
      + (K2s * K2s + K2c * K2c - 4 * K0 * K4c - 4 * K4c * K4c - 4 * K4s * K4s) * w ^ 2
      + (4 * (K4s * K2c - K2s * K4c)) * w ^ 3 + (4 * (K4c * K4c + K4s * K4s)) * w ^ 4 = 0 := by
  linear_combination ((K0 + K4c + K2s * w - 2 * K4c * w ^ 2) - x * (K2c + 2 * K4s * w)) * hK
    + (K2c + 2 * K4s * w) ^ 2 * hx

open Gen.RSing in
/-- **The quartic is the resultant.**  If `ĝ(r,θ) = 0` and `∂ĝ/∂θ (r,θ) = 0` at some `(r, θ)` with `r ≠ 0`, for the
generated `g0 … g2c`, then the generated `K0 … K4c` satisfy the K–equation at `θ`, and `w = sin 2θ` is a root of the
quartic whose coefficients are the generated `coefficients_0 … coefficients_4` (`polyroots` ordering). -/
theorem quartic_is_resultant (o : Ops ℝ) (i : In ℝ) (r θ : ℝ) (hr : r ≠ 0)
    (hg : ghat (g0 o i) (g1c o i) (g20 o i) (g2s o i) (g2c o i) r θ = 0)
    (hd : dghat (g1c o i) (g2s o i) (g2c o i) r θ = 0) :
    K0 o i + K2s o i * Real.sin (2 * θ) + K2c o i * Real.cos (2 * θ) + K4s o i * Real.sin (4 * θ)
      + K4c o i * Real.cos (4 * θ) = 0 ∧
    coefficients_0 o i + coefficients_1 o i * Real.sin (2 * θ) + coefficients_2 o i * Real.sin (2 * θ) ^ 2
      + coefficients_3 o i * Real.sin (2 * θ) ^ 3 + coefficients_4 o i * Real.sin (2 * θ) ^ 4 = 0 := by
  have hcs : Real.sin θ ^ 2 + Real.cos θ ^ 2 = 1 := Real.sin_sq_add_cos_sq θ
  have e2s : Real.sin (2 * θ) = 2 * Real.sin θ * Real.cos θ := Real.sin_two_mul θ
  have e2c : Real.cos (2 * θ) = Real.cos θ ^ 2 - Real.sin θ ^ 2 := by rw [Real.cos_two_mul, ← hcs]; ring
  have e4 : (4:ℝ) * θ = 2 * (2 * θ) := by ring
  have e4s : Real.sin (4 * θ) = 2 * (2 * Real.sin θ * Real.cos θ) * (Real.cos θ ^ 2 - Real.sin θ ^ 2) := by
    rw [e4, Real.sin_two_mul, e2s, e2c]
  have e4c : Real.cos (4 * θ) = 1 - 2 * (2 * Real.sin θ * Real.cos θ) ^ 2 := by
    rw [e4, Real.cos_two_mul, ← e2s]
    have := Real.sin_sq_add_cos_sq (2 * θ)
    linear_combination 2 * this
  simp only [ghat, dghat, e2s, e2c] at hg hd
  have hK := K_equation_alg (g0 o i) (g1c o i) (g20 o i) (g2s o i) (g2c o i) r (Real.sin θ) (Real.cos θ) hcs hr hg hd
  have hx : (Real.cos θ ^ 2 - Real.sin θ ^ 2) ^ 2 = 1 - (2 * Real.sin θ * Real.cos θ) ^ 2 := by
    linear_combination (Real.sin θ ^ 2 + Real.cos θ ^ 2 + 1) * hcs
  have hKeq : K0 o i + K2s o i * (2 * Real.sin θ * Real.cos θ) + K2c o i * (Real.cos θ ^ 2 - Real.sin θ ^ 2)
      + K4s o i * (2 * (2 * Real.sin θ * Real.cos θ) * (Real.cos θ ^ 2 - Real.sin θ ^ 2))
      + K4c o i * (1 - 2 * (2 * Real.sin θ * Real.cos θ) ^ 2) = 0 := by
    simp only [K0, K2s, K2c, K4s, K4c, Nat.cast_ofNat]
    linear_combination hK
  refine ⟨by rw [e2s, e2c, e4s, e4c]; exact hKeq, ?_⟩
  rw [e2s]
  have hq := quartic_alg (K0 o i) (K2s o i) (K2c o i) (K4s o i) (K4c o i) (2 * Real.sin θ * Real.cos θ)
    (Real.cos θ ^ 2 - Real.sin θ ^ 2) hx (by linear_combination hKeq)
  simp only [coefficients_0, coefficients_1, coefficients_2, coefficients_3, coefficients_4, Nat.cast_ofNat]
  linear_combination hq


/-! ## (3) accepted radii are exact roots -/

theorem mem_ite_singleton {b : Bool} {a rr : ℝ} : rr ∈ (if b = true then [a] else []) ↔ b = true ∧ rr = a := by
  cases b <;> simp

theorem accept_iff (rr res : ℝ) : accept realSc rr res = true ↔ 0 < rr ∧ |res| < 1 / 10 ^ 5 := by
  simp [accept, realSc]

/-- a radius accepted from the **linear** branch: it is positive, it is an exact zero of `∂ĝ/∂θ` (residual of the
equation `d sqrt(g)/dθ = 0` that the code writes), and it satisfies `sqrt(g) = 0` to `1e-5` -/
theorem linear_selected (c : Coef ℝ) (st ct w x rr : ℝ) (h : rr ∈ linearSolutions realSc c st ct w x) :
    0 < rr ∧ |residualG c ct w x rr| < 1 / 10 ^ 5 ∧ 1 / 10 ^ 8 < |denominator realSc c w x| ∧
    rr = c.g1c * st / denominator realSc c w x ∧ residualD realSc c st w x rr = 0 := by
  simp only [linearSolutions] at h
  split_ifs at h with h1 h2
  · have h1' : 1 / 10 ^ 8 < |denominator realSc c w x| := of_decide_eq_true h1
    have hrr : rr = c.g1c * st / denominator realSc c w x := by simpa using h
    rw [← hrr] at h2
    obtain ⟨hpos, hres⟩ := (accept_iff _ _).mp h2
    have hden : denominator realSc c w x ≠ 0 := by
      intro h0; rw [h0, abs_zero] at h1'; norm_num at h1'
    refine ⟨hpos, hres, h1', hrr, ?_⟩
    have e : residualD realSc c st w x rr = -(c.g1c * st) + rr * denominator realSc c w x := by
      simp only [residualD, denominator, realSc]; ring
    rw [e, hrr]; field_simp; ring
  · simp at h
  · simp at h

/-- a radius accepted from the **quadratic** branch: it is positive, it satisfies `d sqrt(g)/dθ = 0` to `1e-5`, and
* if `|quadratic_A| ≥ 1e-13` the radicand is `≥ 0` and it is an **exact** root of `ĝ(·,θ)` (quadratic formula);
* if `|quadratic_A| < 1e-13` then `quadratic_B ≠ 0`, it is the exact root of the degenerate equation
  `g0 + r g1c cosθ = 0`, and `ĝ(rr,θ) = rr²·quadratic_A`. -/
theorem quadratic_selected (c : Coef ℝ) (st ct w x rr : ℝ) (h : rr ∈ quadraticSolutions realSc c st ct w x) :
    0 < rr ∧ |residualD realSc c st w x rr| < 1 / 10 ^ 5 ∧
    (¬ |quadA c w x| < 1 / 10 ^ 13 → 0 ≤ radicand realSc c ct w x ∧ residualG c ct w x rr = 0) ∧
    (|quadA c w x| < 1 / 10 ^ 13 → quadB c ct ≠ 0 ∧ c.g0 + rr * c.g1c * ct = 0 ∧
      residualG c ct w x rr = rr * rr * quadA c w x) := by
  have eG : ∀ r, residualG c ct w x r = c.g0 + r * quadB c ct + r * r * quadA c w x := by
    intro r; simp only [residualG, quadB, quadA]; ring
  have final : ∀ r0 : ℝ, rr = r0 → accept realSc r0 (residualD realSc c st w x r0) = true →
      0 < rr ∧ |residualD realSc c st w x rr| < 1 / 10 ^ 5 := by
    intro r0 hrr ha
    rw [← hrr] at ha
    exact (accept_iff _ _).mp ha
  simp only [quadraticSolutions] at h
  by_cases h1 : realSc.lt (realSc.abs (quadA c w x)) realSc.tolA = true
  · -- |A| small
    rw [if_pos h1] at h
    have h1' : |quadA c w x| < 1 / 10 ^ 13 := of_decide_eq_true h1
    obtain ⟨h2, hrr⟩ := mem_ite_singleton.mp h
    obtain ⟨hpos, hres⟩ := final _ hrr h2
    have hrr' : rr = -c.g0 / quadB c ct := hrr
    have hB : quadB c ct ≠ 0 := by
      intro h0; rw [h0, div_zero] at hrr'; linarith
    have hlin : c.g0 + rr * quadB c ct = 0 := by rw [hrr']; field_simp; ring
    refine ⟨hpos, hres, fun hn => absurd h1' hn, fun _ => ⟨hB, ?_, ?_⟩⟩
    · rw [← hlin]; simp only [quadB]; ring
    · rw [eG]; linear_combination hlin
  · rw [if_neg h1] at h
    have h1' : ¬ |quadA c w x| < 1 / 10 ^ 13 := fun hh => h1 (decide_eq_true hh)
    by_cases h3 : realSc.le realSc.zero (radicand realSc c ct w x) = true
    · rw [if_pos h3] at h
      have hrad : 0 ≤ radicand realSc c ct w x := of_decide_eq_true h3
      have hA : quadA c w x ≠ 0 := by
        intro h0; apply h1'; rw [h0, abs_zero]; norm_num
      have hR : Real.sqrt (radicand realSc c ct w x) ^ 2 = quadB c ct * quadB c ct - 4 * quadA c w x * c.g0 := by
        rw [Real.sq_sqrt hrad]; rfl
      have root : ∀ σ : ℝ, σ ^ 2 = 1 → residualG c ct w x (quadRoot realSc c ct w x σ) = 0 := by
        intro σ hσ
        rw [eG]
        have e : quadRoot realSc c ct w x σ = (-quadB c ct + σ * Real.sqrt (radicand realSc c ct w x)) / (2 * quadA c w x) := rfl
        generalize Real.sqrt (radicand realSc c ct w x) = R at hR e
        generalize quadRoot realSc c ct w x σ = t at e
        have ht : 2 * quadA c w x * t + quadB c ct - σ * R = 0 := by rw [e]; field_simp; ring
        have key : 4 * quadA c w x * (c.g0 + t * quadB c ct + t * t * quadA c w x) = 0 := by
          linear_combination (2 * quadA c w x * t + quadB c ct + σ * R) * ht + R ^ 2 * hσ + hR
        exact (mul_eq_zero.mp key).resolve_left (mul_ne_zero four_ne_zero hA)
      rcases List.mem_append.mp h with hm | hm
      · obtain ⟨ha, hrr⟩ := mem_ite_singleton.mp hm
        obtain ⟨hpos, hres⟩ := final _ hrr ha
        exact ⟨hpos, hres, fun _ => ⟨hrad, by rw [hrr]; exact root (-1) (by norm_num)⟩, fun hh => absurd hh h1'⟩
      · obtain ⟨ha, hrr⟩ := mem_ite_singleton.mp hm
        obtain ⟨hpos, hres⟩ := final _ hrr ha
        exact ⟨hpos, hres, fun _ => ⟨hrad, by rw [hrr]; exact root 1 (by norm_num)⟩, fun hh => absurd hh h1'⟩
    · rw [if_neg h3] at h; simp at h

/-- `quadratic_solutions` has at most two entries -/
theorem quadraticSolutions_length (c : Coef ℝ) (st ct w x : ℝ) : (quadraticSolutions realSc c st ct w x).length ≤ 2 := by
  simp only [quadraticSolutions]
  split_ifs <;> simp

/-- `[np.min(quadratic_solutions)]`: for a list of at most two entries, the result is the list itself when it has
fewer than two entries and otherwise `[m]` with `m` a member that is `≤` every member -/
theorem pickSmaller_spec (l : List ℝ) (hl : l.length ≤ 2) :
    (l = [] ∧ pickSmaller realSc l = []) ∨ ∃ m, pickSmaller realSc l = [m] ∧ m ∈ l ∧ ∀ q ∈ l, m ≤ q := by
  match l, hl with
  | [], _ => left; exact ⟨rfl, rfl⟩
  | [a], _ => right; exact ⟨a, rfl, by simp, by simp⟩
  | [a, b], _ =>
    right
    by_cases hba : b < a
    · refine ⟨b, ?_, by simp, ?_⟩
      · simp [pickSmaller, realSc, hba]
      · intro q hq
        simp only [List.mem_cons, List.not_mem_nil, or_false] at hq
        rcases hq with rfl | rfl
        · exact hba.le
        · exact le_refl _
    · refine ⟨a, ?_, by simp, ?_⟩
      · simp [pickSmaller, realSc, hba]
      · intro q hq
        simp only [List.mem_cons, List.not_mem_nil, or_false] at hq
        rcases hq with rfl | rfl
        · exact le_refl _
        · exact not_lt.mp hba
  | _ :: _ :: _ :: _, h => simp at h

/-- the `rr` at the end of the body of the `varsigma` loop ("prefer the quadratic solution"): it is
`-1` (no candidate), or the **smallest** accepted quadratic solution, or — only when there is no accepted quadratic
solution — the accepted linear solution -/
theorem candidate_cases (c : Coef ℝ) (w x vs : ℝ) :
    let st := (sincos realSc w x vs).1
    let ct := (sincos realSc w x vs).2
    let rr := candidate realSc c w x vs
    (rr = -1 ∧ quadraticSolutions realSc c st ct w x = [] ∧ linearSolutions realSc c st ct w x = []) ∨
    (rr ∈ quadraticSolutions realSc c st ct w x ∧ ∀ q ∈ quadraticSolutions realSc c st ct w x, rr ≤ q) ∨
    (quadraticSolutions realSc c st ct w x = [] ∧ rr ∈ linearSolutions realSc c st ct w x) := by
  intro st ct rr
  have e : rr = prefer realSc (linearSolutions realSc c st ct w x) (pickSmaller realSc (quadraticSolutions realSc c st ct w x)) := rfl
  rcases pickSmaller_spec _ (quadraticSolutions_length c st ct w x) with ⟨h0, hp⟩ | ⟨m, hp, hm, hmin⟩
  · rw [hp] at e
    rcases hl : linearSolutions realSc c st ct w x with _ | ⟨l, tl⟩
    · left; rw [hl] at e; exact ⟨e, h0, rfl⟩
    · right; right; rw [hl] at e; exact ⟨h0, by rw [e]; simp [prefer]⟩
  · rw [hp] at e
    right; left
    have : rr = m := e
    rw [this]; exact ⟨hm, hmin⟩

/-- **Accepted radii are roots.**  A positive `rr` at the end of the `varsigma` body is
* (quadratic branch) the smallest accepted quadratic solution: an exact root of `ĝ(·,θ)` when `|quadratic_A| ≥ 1e-13`,
  the exact root of `g0 + r g1c cosθ = 0` otherwise; or
* (linear branch, only if the quadratic branch accepted nothing) an exact zero of `∂ĝ/∂θ` with `|ĝ| < 1e-5`. -/
theorem selected_is_root (c : Coef ℝ) (w x vs : ℝ) (hpos : 0 < candidate realSc c w x vs) :
    let st := (sincos realSc w x vs).1
    let ct := (sincos realSc w x vs).2
    let rr := candidate realSc c w x vs
    (rr ∈ quadraticSolutions realSc c st ct w x ∧ (∀ q ∈ quadraticSolutions realSc c st ct w x, rr ≤ q) ∧
      |residualD realSc c st w x rr| < 1 / 10 ^ 5 ∧
      (¬ |quadA c w x| < 1 / 10 ^ 13 → 0 ≤ radicand realSc c ct w x ∧ residualG c ct w x rr = 0) ∧
      (|quadA c w x| < 1 / 10 ^ 13 → c.g0 + rr * c.g1c * ct = 0)) ∨
    (quadraticSolutions realSc c st ct w x = [] ∧ rr ∈ linearSolutions realSc c st ct w x ∧
      residualD realSc c st w x rr = 0 ∧ |residualG c ct w x rr| < 1 / 10 ^ 5) := by
  intro st ct rr
  rcases candidate_cases c w x vs with ⟨h, _, _⟩ | ⟨hm, hmin⟩ | ⟨h0, hl⟩
  · exfalso; have : (0:ℝ) < -1 := by rw [← h]; exact hpos
    norm_num at this
  · left
    obtain ⟨_, hres, hA, hsmall⟩ := quadratic_selected c st ct w x rr hm
    exact ⟨hm, hmin, hres, hA, fun hh => (hsmall hh).2.1⟩
  · right
    obtain ⟨_, hres, _, _, hD⟩ := linear_selected c st ct w x rr hl
    exact ⟨h0, hl, hD, hres⟩

/-- every accepted radius is positive; `candidate` is positive **iff** some solution was accepted -/
theorem candidate_pos_iff (c : Coef ℝ) (w x vs : ℝ) :
    0 < candidate realSc c w x vs ↔
      ¬ (quadraticSolutions realSc c (sincos realSc w x vs).1 (sincos realSc w x vs).2 w x = [] ∧
         linearSolutions realSc c (sincos realSc w x vs).1 (sincos realSc w x vs).2 w x = []) := by
  rcases candidate_cases c w x vs with ⟨h, hq, hl⟩ | ⟨hm, _⟩ | ⟨h0, hl⟩
  · constructor
    · intro hp; rw [h] at hp; norm_num at hp
    · intro hn; exact absurd ⟨hq, hl⟩ hn
  · constructor
    · intro _ hn; rw [hn.1] at hm; simp at hm
    · intro _; exact (quadratic_selected c _ _ w x _ hm).1
  · constructor
    · intro _ hn; rw [hn.2] at hl; simp at hl
    · intro _; exact (linear_selected c _ _ w x _ hl).1

/-! ## (4) the value of a grid point is the minimum of the accepted candidates; the scalar is the grid minimum -/

theorem rootPasses_iff (rt : ℝ × ℝ) : rootPasses realSc rt = true ↔ |rt.2| ≤ 1 / 10 ^ 7 ∧ |rt.1| ≤ 1 := by
  simp [rootPasses, realSc]

/-- the `rr` values reached at the end of the `varsigma` body, for the roots that pass the two filters
(`|imag| ≤ 1e-7`, `|real| ≤ 1`), in loop order (`jr` outer, `varsigma ∈ [-1, 1]` inner) -/
noncomputable def allCandidates (c : Coef ℝ) (roots : List (ℝ × ℝ)) : List ℝ :=
  (roots.filter (fun rt => rootPasses realSc rt)).flatMap fun rt =>
    [candidate realSc c rt.1 (cos2 realSc c rt.1) (-1), candidate realSc c rt.1 (cos2 realSc c rt.1) 1]

/-- the candidate radii: those that are `> 0` (an `rr = -1` means "no solution accepted", `candidate_pos_iff`) -/
noncomputable def cands (c : Coef ℝ) (roots : List (ℝ × ℝ)) : List ℝ :=
  (allCandidates c roots).filter fun r => decide (0 < r)

theorem update_eq (m r : ℝ) : update realSc m r = if 0 < r then min m r else m := by
  simp only [update, realSc, Bool.and_eq_true, decide_eq_true_eq]
  by_cases h0 : 0 < r
  · by_cases h1 : r < m
    · rw [if_pos ⟨h0, h1⟩, if_pos h0, min_eq_right h1.le]
    · rw [if_neg (fun h => h1 h.2), if_pos h0, min_eq_left (not_lt.mp h1)]
  · rw [if_neg (fun h => h0 h.1), if_neg h0]

theorem foldl_update (l : List ℝ) (m : ℝ) :
    l.foldl (update realSc) m = (l.filter fun r => decide (0 < r)).foldl min m := by
  induction l generalizing m with
  | nil => rfl
  | cons a l ih =>
    rw [List.foldl_cons, ih, update_eq, List.filter_cons]
    by_cases h : 0 < a
    · simp [h]
    · simp [h]

/-- one root: at `ℝ` the sanity test never raises, and the body of the `jr` loop is two `update`s -/
theorem rootStep_eq (c : Coef ℝ) (m : ℝ) (rt : ℝ × ℝ) :
    rootStep realSc c (some m) rt =
      some (if rootPasses realSc rt = true then
        update realSc (update realSc m (candidate realSc c rt.1 (cos2 realSc c rt.1) (-1)))
          (candidate realSc c rt.1 (cos2 realSc c rt.1) 1)
      else m) := by
  by_cases hp : rootPasses realSc rt = true
  · have hw : |rt.1| ≤ 1 := ((rootPasses_iff rt).mp hp).2
    have s1 := sanity_never_fails c rt.1 (-1) hw (Or.inl rfl)
    have s2 := sanity_never_fails c rt.1 1 hw (Or.inr rfl)
    simp only at s1 s2
    have e2 : (realSc.one : ℝ) = 1 := rfl
    simp only [rootStep, hp, if_true, List.foldl_cons, List.foldl_nil, varsigmaStep, e2, s1, s2, Bool.false_eq_true, if_false]
  · simp only [rootStep, hp, if_false, Bool.false_eq_true]

theorem point_fold (c : Coef ℝ) (roots : List (ℝ × ℝ)) (m : ℝ) :
    roots.foldl (rootStep realSc c) (some m) = some ((allCandidates c roots).foldl (update realSc) m) := by
  induction roots generalizing m with
  | nil => rfl
  | cons rt roots ih =>
    rw [List.foldl_cons, rootStep_eq, ih]
    by_cases hp : rootPasses realSc rt = true
    · simp [allCandidates, hp, List.flatMap_cons]
    · simp [allCandidates, hp]

/-- at `ℝ` the model of one grid point never raises, and returns the left fold of `min` over the candidate radii,
started from the sentinel `1e100` -/
theorem point_eq (c : Coef ℝ) (roots : List (ℝ × ℝ)) :
    point realSc c roots = some ((cands c roots).foldl min (10 ^ 100)) := by
  unfold point cands
  rw [point_fold, foldl_update]
  rfl

theorem foldl_min_spec (l : List ℝ) (m : ℝ) :
    l.foldl min m ≤ m ∧ (∀ x ∈ l, l.foldl min m ≤ x) ∧ (l.foldl min m = m ∨ l.foldl min m ∈ l) := by
  induction l generalizing m with
  | nil => simp
  | cons a l ih =>
    obtain ⟨h1, h2, h3⟩ := ih (min m a)
    rw [List.foldl_cons]
    refine ⟨h1.trans (min_le_left _ _), ?_, ?_⟩
    · intro x hx
      rcases List.mem_cons.mp hx with rfl | hx
      · exact h1.trans (min_le_right _ _)
      · exact h2 x hx
    · rcases h3 with h | h
      · rcases min_choice m a with hm | hm
        · left; rw [h, hm]
        · right; rw [h, hm]; exact List.mem_cons_self
      · right; exact List.mem_cons_of_mem _ h

/-- **The reported radius of a grid point is the minimum of the candidate radii that passed the filters.**
The loop returns a value `v` (it does not raise) with `v ≤ 1e100`, `v ≤` every candidate, and `v` is the sentinel or
one of the candidates. -/
theorem selected_is_min_of_candidates (c : Coef ℝ) (roots : List (ℝ × ℝ)) :
    ∃ v, point realSc c roots = some v ∧ v ≤ 10 ^ 100 ∧ (∀ x ∈ cands c roots, v ≤ x) ∧
      (v = 10 ^ 100 ∨ v ∈ cands c roots) :=
  ⟨_, point_eq c roots, foldl_min_spec _ _⟩

/-- every candidate is `> 0`, hence so is the reported radius -/
theorem cands_pos (c : Coef ℝ) (roots : List (ℝ × ℝ)) : ∀ x ∈ cands c roots, 0 < x := by
  intro x hx
  have := (List.mem_filter.mp hx).2
  exact of_decide_eq_true this

theorem point_pos (c : Coef ℝ) (roots : List (ℝ × ℝ)) (v : ℝ) (h : point realSc c roots = some v) : 0 < v := by
  obtain ⟨v', h', _, _, hv⟩ := selected_is_min_of_candidates c roots
  have : v = v' := by rw [h] at h'; exact Option.some.inj h'
  subst this
  rcases hv with hv | hv
  · rw [hv]; positivity
  · exact cands_pos c roots v hv

/-- **The sentinel `1e100` is reported iff there was no candidate** (all candidates being `< 1e100`). -/
theorem sentinel_iff_no_candidate (c : Coef ℝ) (roots : List (ℝ × ℝ)) (hlt : ∀ x ∈ cands c roots, x < 10 ^ 100) :
    point realSc c roots = some (10 ^ 100) ↔ cands c roots = [] := by
  obtain ⟨v, h, hle, hmin, hv⟩ := selected_is_min_of_candidates c roots
  constructor
  · intro h'
    have hv' : v = 10 ^ 100 := by rw [h] at h'; exact Option.some.inj h'
    rcases hc : cands c roots with _ | ⟨a, l⟩
    · rfl
    · exfalso
      have ha : a ∈ cands c roots := by rw [hc]; exact List.mem_cons_self
      have := hmin a ha
      have := hlt a ha
      linarith
  · intro h'
    rw [h'] at hv
    rcases hv with hv | hv
    · rw [h, hv]
    · simp at hv

/-- `self.r_singularity = np.min(r_singularity_vs_varphi)`: a member of the (non-empty) array, `≤` every member -/
theorem scalar_is_grid_min (a : ℝ) (l : List ℝ) :
    gridMin realSc (a :: l) ∈ a :: l ∧ ∀ x ∈ a :: l, gridMin realSc (a :: l) ≤ x := by
  have e : gridMin realSc (a :: l) = l.foldl min a := by
    simp only [gridMin, realSc]
    congr 1
    funext m x
    by_cases h : x < m
    · simp [h, min_eq_right h.le]
    · simp [h, min_eq_left (not_lt.mp h)]
  rw [e]
  obtain ⟨h1, h2, h3⟩ := foldl_min_spec l a
  refine ⟨?_, ?_⟩
  · rcases h3 with h | h
    · rw [h]; exact List.mem_cons_self
    · exact List.mem_cons_of_mem _ h
  · intro x hx
    rcases List.mem_cons.mp hx with rfl | hx
    · exact h1
    · exact h2 x hx

/-- `inv_r_singularity_vs_varphi = 1 / r_singularity_vs_varphi` -/
theorem inv_eq (r : ℝ) : inv realSc r = 1 / r := rfl

/-! ## (5) the reported radius and the singular points `ĝ = 0 = ∂ĝ/∂θ` -/

/-- where the reported value comes from: the sentinel, or the `rr` of one passing root and one `varsigma`
(to which `selected_is_root` applies) -/
theorem reported_cases (c : Coef ℝ) (roots : List (ℝ × ℝ)) (v : ℝ) (h : point realSc c roots = some v) :
    v = 10 ^ 100 ∨ ∃ rt ∈ roots, rootPasses realSc rt = true ∧ ∃ vs : ℝ, (vs = -1 ∨ vs = 1) ∧
      v = candidate realSc c rt.1 (cos2 realSc c rt.1) vs ∧ 0 < v := by
  obtain ⟨v', h', _, _, hv⟩ := selected_is_min_of_candidates c roots
  have : v = v' := by rw [h] at h'; exact Option.some.inj h'
  subst this
  rcases hv with hv | hv
  · left; exact hv
  · right
    have hpos := cands_pos c roots v hv
    have hm := (List.mem_filter.mp hv).1
    obtain ⟨rt, hrt, hin⟩ := List.mem_flatMap.mp hm
    obtain ⟨hrt1, hrt2⟩ := List.mem_filter.mp hrt
    simp only [List.mem_cons, List.not_mem_nil, or_false] at hin
    rcases hin with hin | hin
    · exact ⟨rt, hrt1, hrt2, -1, Or.inl rfl, hin, hpos⟩
    · exact ⟨rt, hrt1, hrt2, 1, Or.inr rfl, hin, hpos⟩

/-- one of the two `varsigma` reproduces `(sin θ, cos θ)` from `(sin 2θ, cos 2θ)` -/
theorem sincos_recovers (θ : ℝ) :
    ∃ vs : ℝ, (vs = -1 ∨ vs = 1) ∧ sincos realSc (Real.sin (2 * θ)) (Real.cos (2 * θ)) vs = (Real.sin θ, Real.cos θ) := by
  have hc2 : Real.cos θ ^ 2 = 1 / 2 * (1 + Real.cos (2 * θ)) := by rw [Real.cos_sq θ]; ring
  have hs2 : Real.sin θ ^ 2 = 1 / 2 * (1 - Real.cos (2 * θ)) := by
    have := Real.sin_sq_add_cos_sq θ
    linear_combination this - hc2
  have hw : Real.sin (2 * θ) = 2 * Real.sin θ * Real.cos θ := Real.sin_two_mul θ
  by_cases hpos : 0 < Real.cos (2 * θ)
  · have hne : Real.cos θ ≠ 0 := by
      intro h0; rw [h0] at hc2; nlinarith
    have hsq : Real.sqrt (1 / 2 * (1 + Real.cos (2 * θ))) = |Real.cos θ| := by rw [← hc2, Real.sqrt_sq_eq_abs]
    rcases lt_or_gt_of_ne hne with hneg | hp
    · refine ⟨-1, Or.inl rfl, ?_⟩
      rw [sincos_pos _ _ _ hpos, hsq, abs_of_neg hneg, hw]
      have : (-1 : ℝ) * -Real.cos θ = Real.cos θ := by ring
      rw [this]
      congr 1
      field_simp
    · refine ⟨1, Or.inr rfl, ?_⟩
      rw [sincos_pos _ _ _ hpos, hsq, abs_of_pos hp, hw, one_mul]
      congr 1
      field_simp
  · have hne : Real.sin θ ≠ 0 := by
      intro h0; rw [h0] at hs2; nlinarith [not_lt.mp hpos]
    have hsq : Real.sqrt (1 / 2 * (1 - Real.cos (2 * θ))) = |Real.sin θ| := by rw [← hs2, Real.sqrt_sq_eq_abs]
    rcases lt_or_gt_of_ne hne with hneg | hp
    · refine ⟨-1, Or.inl rfl, ?_⟩
      rw [sincos_nonpos _ _ _ hpos, hsq, abs_of_neg hneg, hw]
      have : (-1 : ℝ) * -Real.sin θ = Real.sin θ := by ring
      rw [this]
      congr 1
      field_simp
    · refine ⟨1, Or.inr rfl, ?_⟩
      rw [sincos_nonpos _ _ _ hpos, hsq, abs_of_pos hp, hw, one_mul]
      congr 1
      field_simp

/-- a singular point `(r, θ)`, `r > 0`, is found by the quadratic branch (when `|quadratic_A| ≥ 1e-13`) -/
theorem singular_in_quadratic (c : Coef ℝ) (r θ : ℝ) (hr : 0 < r)
    (hg : ghat c.g0 c.g1c c.g20 c.g2s c.g2c r θ = 0) (hd : dghat c.g1c c.g2s c.g2c r θ = 0)
    (hA : ¬ |quadA c (Real.sin (2 * θ)) (Real.cos (2 * θ))| < 1 / 10 ^ 13) :
    r ∈ quadraticSolutions realSc c (Real.sin θ) (Real.cos θ) (Real.sin (2 * θ)) (Real.cos (2 * θ)) := by
  simp only [ghat] at hg
  simp only [dghat] at hd
  generalize Real.sin (2 * θ) = w at *
  generalize Real.cos (2 * θ) = x at *
  have hA0 : quadA c w x ≠ 0 := by
    intro h0; apply hA; rw [h0, abs_zero]; norm_num
  have hquad : quadA c w x * r ^ 2 + quadB c (Real.cos θ) * r + c.g0 = 0 := by
    simp only [quadA, quadB]; linear_combination hg
  have hD : residualD realSc c (Real.sin θ) w x r = 0 := by
    have : r * residualD realSc c (Real.sin θ) w x r = 0 := by
      simp only [residualD, realSc]; linear_combination hd
    exact (mul_eq_zero.mp this).resolve_left hr.ne'
  have hacc : accept realSc r (residualD realSc c (Real.sin θ) w x r) = true := by
    rw [accept_iff, hD, abs_zero]; exact ⟨hr, by norm_num⟩
  have hrad : radicand realSc c (Real.cos θ) w x = (2 * quadA c w x * r + quadB c (Real.cos θ)) ^ 2 := by
    have e : radicand realSc c (Real.cos θ) w x
        = quadB c (Real.cos θ) * quadB c (Real.cos θ) - 4 * quadA c w x * c.g0 := rfl
    rw [e]; linear_combination (-4 * quadA c w x) * hquad
  have h1 : ¬ (realSc.lt (realSc.abs (quadA c w x)) realSc.tolA = true) := fun h => hA (of_decide_eq_true h)
  have h3 : realSc.le realSc.zero (radicand realSc c (Real.cos θ) w x) = true :=
    decide_eq_true (by rw [hrad]; positivity)
  simp only [quadraticSolutions]
  rw [if_neg h1, if_pos h3]
  have eroot : ∀ σ : ℝ, quadRoot realSc c (Real.cos θ) w x σ
      = (-quadB c (Real.cos θ) + σ * |2 * quadA c w x * r + quadB c (Real.cos θ)|) / (2 * quadA c w x) := by
    intro σ
    have : quadRoot realSc c (Real.cos θ) w x σ
        = (-quadB c (Real.cos θ) + σ * Real.sqrt (radicand realSc c (Real.cos θ) w x)) / (2 * quadA c w x) := rfl
    rw [this, hrad, Real.sqrt_sq_eq_abs]
  by_cases ht : 0 ≤ 2 * quadA c w x * r + quadB c (Real.cos θ)
  · have e : quadRoot realSc c (Real.cos θ) w x realSc.one = r := by
      have : (realSc.one : ℝ) = 1 := rfl
      rw [this, eroot, abs_of_nonneg ht]; field_simp; ring
    apply List.mem_append_right
    rw [e, if_pos hacc]; exact List.mem_singleton_self r
  · have e : quadRoot realSc c (Real.cos θ) w x (-realSc.one) = r := by
      have : (-realSc.one : ℝ) = -1 := rfl
      rw [this, eroot, abs_of_neg (not_le.mp ht)]; field_simp; ring
    apply List.mem_append_left
    rw [e, if_pos hacc]; exact List.mem_singleton_self r

/-- for `sin2theta = sin 2θ`, `cos2theta = cos 2θ` of a singular point with `r > 0`, one of the two `varsigma`
yields an accepted `rr` with `0 < rr ≤ r` -/
theorem candidate_le_singular (c : Coef ℝ) (r θ : ℝ) (hr : 0 < r)
    (hg : ghat c.g0 c.g1c c.g20 c.g2s c.g2c r θ = 0) (hd : dghat c.g1c c.g2s c.g2c r θ = 0)
    (hA : ¬ |quadA c (Real.sin (2 * θ)) (Real.cos (2 * θ))| < 1 / 10 ^ 13) :
    ∃ vs : ℝ, (vs = -1 ∨ vs = 1) ∧ 0 < candidate realSc c (Real.sin (2 * θ)) (Real.cos (2 * θ)) vs ∧
      candidate realSc c (Real.sin (2 * θ)) (Real.cos (2 * θ)) vs ≤ r := by
  obtain ⟨vs, hvs, hsc⟩ := sincos_recovers θ
  have hmem := singular_in_quadratic c r θ hr hg hd hA
  refine ⟨vs, hvs, ?_⟩
  have h1 : (sincos realSc (Real.sin (2 * θ)) (Real.cos (2 * θ)) vs).1 = Real.sin θ := by rw [hsc]
  have h2 : (sincos realSc (Real.sin (2 * θ)) (Real.cos (2 * θ)) vs).2 = Real.cos θ := by rw [hsc]
  rcases candidate_cases c (Real.sin (2 * θ)) (Real.cos (2 * θ)) vs with ⟨_, hq, _⟩ | ⟨hm, hmin⟩ | ⟨h0, _⟩
  · rw [h1, h2] at hq; rw [hq] at hmem; simp at hmem
  · rw [h1, h2] at hm hmin
    exact ⟨(quadratic_selected c _ _ _ _ _ hm).1, hmin r hmem⟩
  · rw [h1, h2] at h0; rw [h0] at hmem; simp at hmem

/-- the `varpi` chosen by comparing the two residuals is the right one: if the K–equation holds at
`(sin2theta, cos2theta) = (w, x)` with `x² = 1 − w²` then the loop's `cos2theta` is `x`, provided that for `x < 0` the
other sign is not *also* a solution (then the code keeps `varpi = +1`) -/
theorem varpi_correct (c : Coef ℝ) (w x : ℝ) (hx : x ^ 2 = 1 - w ^ 2)
    (hK : c.K0 + c.K2s * w + c.K2c * x + c.K4s * 2 * w * x + c.K4c * (1 - 2 * w * w) = 0)
    (hother : x < 0 → residualK realSc c w (absCos2 realSc w) ≠ 0) : cos2 realSc c w = x := by
  have habs : absCos2 realSc w = |x| := by
    have : absCos2 realSc w = Real.sqrt (1 - w * w) := rfl
    rw [this, ← Real.sqrt_sq_eq_abs, hx]; congr 1; ring
  have hres : residualK realSc c w x = 0 := by
    have : residualK realSc c w x = |c.K0 + c.K2s * w + c.K2c * x + c.K4s * 2 * w * x + c.K4c * (1 - 2 * w * w)| := rfl
    rw [this, hK, abs_zero]
  have hnn : ∀ y, 0 ≤ residualK realSc c w y := fun y => abs_nonneg _
  have e : cos2 realSc c w = varpi realSc c w * absCos2 realSc w := rfl
  by_cases h0 : 0 ≤ x
  · have hv : varpi realSc c w = 1 := by
      unfold varpi
      rw [habs, abs_of_nonneg h0, hres, if_neg]
      · rfl
      · intro h; have := of_decide_eq_true h; linarith [hnn (-x)]
    rw [e, hv, habs, abs_of_nonneg h0, one_mul]
  · have hneg : x < 0 := not_le.mp h0
    have hv : varpi realSc c w = -1 := by
      have hp := hother hneg
      rw [habs, abs_of_neg hneg] at hp
      unfold varpi
      rw [habs, abs_of_neg hneg, neg_neg, hres, if_pos]
      · rfl
      · exact decide_eq_true (lt_of_le_of_ne (hnn _) (Ne.symm hp))
    rw [e, hv, habs, abs_of_neg hneg]; ring

open Gen.RSing in
/-- the scalars of one grid point, from the **generated** definitions -/
noncomputable def coefOf (o : Ops ℝ) (i : In ℝ) : Coef ℝ :=
  { g0 := g0 o i, g1c := g1c o i, g20 := g20 o i, g2s := g2s o i, g2c := g2c o i,
    K0 := K0 o i, K2s := K2s o i, K2c := K2c o i, K4s := K4s o i, K4c := K4c o i }

/-- **The reported radius is at most every singular radius whose `sin 2θ` is among the roots.**  Let `(r, θ)`, `r > 0`,
be a point where `ĝ = 0 = ∂ĝ/∂θ` (generated g's).  By `quartic_is_resultant`, `w = sin 2θ` is a root of the quartic
given to `polyroots`.  If that root is in the list (with an imaginary part passing the `1e-7` filter), the sign
ambiguity of `cos 2θ` is resolvable (`hother`) and `|quadratic_A| ≥ 1e-13`, then the value `v` reported for the grid
point satisfies `0 < v ≤ r`.  Together with `reported_cases` + `selected_is_root` (`v` is itself an exact root of
`ĝ(·,θ')` for a reconstructed `θ'`): `v` is the smallest such radius. -/
theorem reported_le_singular (o : Ops ℝ) (i : Gen.RSing.In ℝ) (roots : List (ℝ × ℝ)) (r θ im : ℝ) (hr : 0 < r)
    (hg : ghat (Gen.RSing.g0 o i) (Gen.RSing.g1c o i) (Gen.RSing.g20 o i) (Gen.RSing.g2s o i) (Gen.RSing.g2c o i) r θ = 0)
    (hd : dghat (Gen.RSing.g1c o i) (Gen.RSing.g2s o i) (Gen.RSing.g2c o i) r θ = 0)
    (hroot : (Real.sin (2 * θ), im) ∈ roots) (him : |im| ≤ 1 / 10 ^ 7)
    (hother : Real.cos (2 * θ) < 0 →
      residualK realSc (coefOf o i) (Real.sin (2 * θ)) (absCos2 realSc (Real.sin (2 * θ))) ≠ 0)
    (hA : ¬ |quadA (coefOf o i) (Real.sin (2 * θ)) (Real.cos (2 * θ))| < 1 / 10 ^ 13) :
    ∃ v, point realSc (coefOf o i) roots = some v ∧ 0 < v ∧ v ≤ r := by
  obtain ⟨hKeq, _⟩ := quartic_is_resultant o i r θ hr.ne' hg hd
  have hx : Real.cos (2 * θ) ^ 2 = 1 - Real.sin (2 * θ) ^ 2 := by
    have := Real.sin_sq_add_cos_sq (2 * θ); linear_combination this
  have e4 : (4:ℝ) * θ = 2 * (2 * θ) := by ring
  have hK : (coefOf o i).K0 + (coefOf o i).K2s * Real.sin (2 * θ) + (coefOf o i).K2c * Real.cos (2 * θ)
      + (coefOf o i).K4s * 2 * Real.sin (2 * θ) * Real.cos (2 * θ)
      + (coefOf o i).K4c * (1 - 2 * Real.sin (2 * θ) * Real.sin (2 * θ)) = 0 := by
    have s4 : Real.sin (4 * θ) = 2 * Real.sin (2 * θ) * Real.cos (2 * θ) := by rw [e4, Real.sin_two_mul]
    have c4 : Real.cos (4 * θ) = 1 - 2 * Real.sin (2 * θ) * Real.sin (2 * θ) := by
      rw [e4, Real.cos_two_mul]; linear_combination 2 * hx
    rw [s4, c4] at hKeq
    simp only [coefOf]
    linear_combination hKeq
  have hcos2 := varpi_correct (coefOf o i) _ _ hx hK hother
  obtain ⟨vs, hvs, hpos, hle⟩ := candidate_le_singular (coefOf o i) r θ hr hg hd hA
  obtain ⟨v, hv, _, hmin, _⟩ := selected_is_min_of_candidates (coefOf o i) roots
  refine ⟨v, hv, point_pos _ _ _ hv, le_trans (hmin _ ?_) hle⟩
  have hpass : rootPasses realSc (Real.sin (2 * θ), im) = true :=
    (rootPasses_iff _).mpr ⟨him, Real.abs_sin_le_one _⟩
  refine List.mem_filter.mpr ⟨List.mem_flatMap.mpr ⟨(Real.sin (2 * θ), im), List.mem_filter.mpr ⟨hroot, hpass⟩, ?_⟩,
    decide_eq_true hpos⟩
  simp only [hcos2, List.mem_cons, List.not_mem_nil, or_false]
  rcases hvs with h | h <;> rw [h] <;> simp

#print axioms trig_consistent
#print axioms trig_unit_iff
#print axioms dghat_is_derivative
#print axioms quartic_is_resultant
#print axioms linear_selected
#print axioms quadratic_selected
#print axioms candidate_cases
#print axioms selected_is_root
#print axioms candidate_pos_iff
#print axioms point_eq
#print axioms selected_is_min_of_candidates
#print axioms point_pos
#print axioms sentinel_iff_no_candidate
#print axioms scalar_is_grid_min
#print axioms reported_cases
#print axioms varpi_correct
#print axioms reported_le_singular

end C12
