import QscModel.Gen.Axis
import QscModel.Gen.R1d
import QscProofs.Tactics
import QscProofs.Lemmas.Signs
import Mathlib.Analysis.SpecialFunctions.Sqrt
import Mathlib.Analysis.SpecialFunctions.Trigonometric.Basic
import Mathlib.Tactic.Ring
import Mathlib.Tactic.Linarith
import Mathlib.Tactic.Positivity
import Mathlib.Tactic.FieldSimp
import Mathlib.Tactic.LinearCombination
import Mathlib.Algebra.Group.Pi.Basic
import Mathlib.Algebra.Ring.Pi
/-!
# C03 – axis geometry (`init_axis`) and first-order diagnostics (`r1_diagnostics`)

All statements are about the **generated** definitions `Gen.Axis.*` (from `init_axis`) and `Gen.R1d.*`
(from `r1_diagnostics`).  Carrier `ℝ` = one grid point; `o.sqrt`, `o.abs`, `o.sin`, `o.cos` are tied to the real
functions by hypotheses.

Notation (cylindrical components `(R, φ, Z)` of the φ-derivatives of the position vector):
`r' = (R0p, R0, Z0p)`, `r'' = (R0pp − R0, 2 R0p, Z0pp)`, `r''' = (R0ppp − 3 R0p, 3 R0pp − R0, Z0ppp)`.
-/
namespace C03
set_option maxHeartbeats 1000000

/-! ### 3-vector helpers used only to *state* the classical formulas -/
section vec
set_option linter.unusedVariables false
variable {K : Type} [Field K]
/-- components of `u × v` -/
def cross0 (u0 u1 u2 v0 v1 v2 : K) : K := u1 * v2 - u2 * v1
def cross1 (u0 u1 u2 v0 v1 v2 : K) : K := u2 * v0 - u0 * v2
def cross2 (u0 u1 u2 v0 v1 v2 : K) : K := u0 * v1 - u1 * v0
/-- `u · v` -/
def dot3 (u0 u1 u2 v0 v1 v2 : K) : K := u0 * v0 + u1 * v1 + u2 * v2
/-- `|r' × r''|²` for `r' = (R0p, R0, Z0p)`, `r'' = (R0pp − R0, 2 R0p, Z0pp)` -/
def crossSq (R0 R0p R0pp Z0p Z0pp : K) : K :=
  cross0 R0p R0 Z0p (R0pp - R0) (2 * R0p) Z0pp ^ 2 + cross1 R0p R0 Z0p (R0pp - R0) (2 * R0p) Z0pp ^ 2
    + cross2 R0p R0 Z0p (R0pp - R0) (2 * R0p) Z0pp ^ 2
/-- `r' · (r'' × r''')` -/
def triple (R0 R0p R0pp R0ppp Z0p Z0pp Z0ppp : K) : K :=
  dot3 R0p R0 Z0p
    (cross0 (R0pp - R0) (2 * R0p) Z0pp (R0ppp - 3 * R0p) (3 * R0pp - R0) Z0ppp)
    (cross1 (R0pp - R0) (2 * R0p) Z0pp (R0ppp - 3 * R0p) (3 * R0pp - R0) Z0ppp)
    (cross2 (R0pp - R0) (2 * R0p) Z0pp (R0ppp - 3 * R0p) (3 * R0pp - R0) Z0ppp)
end vec

/-! ## (a), (b): Frenet frame, curvature, torsion — carrier `ℝ` -/
section frame
open Gen.Axis

/-- the radicand of `d_l_d_phi`: `|r'|²` -/
def speedSq (i : In ℝ) : ℝ := i.R0 * i.R0 + i.R0p * i.R0p + i.Z0p * i.Z0p

/-- `dt/dl` exactly as inlined in the generated `curvature` and `normal_cylindrical_k` (component `R`) -/
noncomputable def dtdl0 (o : Ops ℝ) (i : In ℝ) : ℝ :=
  ((((-i.R0p) * (d2_l_d_phi2 o i)) / (d_l_d_phi o i)) + (i.R0pp - i.R0)) / ((d_l_d_phi o i) * (d_l_d_phi o i))
/-- component `φ` -/
noncomputable def dtdl1 (o : Ops ℝ) (i : In ℝ) : ℝ :=
  ((((-i.R0) * (d2_l_d_phi2 o i)) / (d_l_d_phi o i)) + (((2:Nat):ℝ) * i.R0p)) / ((d_l_d_phi o i) * (d_l_d_phi o i))
/-- component `Z` -/
noncomputable def dtdl2 (o : Ops ℝ) (i : In ℝ) : ℝ :=
  ((((-i.Z0p) * (d2_l_d_phi2 o i)) / (d_l_d_phi o i)) + i.Z0pp) / ((d_l_d_phi o i) * (d_l_d_phi o i))

/-- the generated curvature is the Euclidean norm of the inlined `d_tangent_d_l_cylindrical` -/
theorem curvature_is_norm (o : Ops ℝ) (i : In ℝ) (hsqrt : ∀ x, o.sqrt x = Real.sqrt x) :
    curvature o i = Real.sqrt (dtdl0 o i * dtdl0 o i + dtdl1 o i * dtdl1 o i + dtdl2 o i * dtdl2 o i) ∧
    normal_cylindrical_0 o i = dtdl0 o i / curvature o i ∧
    normal_cylindrical_1 o i = dtdl1 o i / curvature o i ∧
    normal_cylindrical_2 o i = dtdl2 o i / curvature o i := by
  refine ⟨?_, ?_, ?_, ?_⟩
  · rw [← hsqrt]; qsc_rfl [dtdl0, dtdl1, dtdl2, speedSq]
  all_goals qsc_rfl [dtdl0, dtdl1, dtdl2, speedSq]

theorem d_l_d_phi_sq (o : Ops ℝ) (i : In ℝ) (hsqrt : ∀ x, o.sqrt x = Real.sqrt x) (hl : 0 < speedSq i) :
    0 < d_l_d_phi o i ∧ d_l_d_phi o i * d_l_d_phi o i = speedSq i := by
  have e : d_l_d_phi o i = Real.sqrt (speedSq i) := by rw [← hsqrt]; rfl
  rw [e]
  exact ⟨Real.sqrt_pos.mpr hl, Real.mul_self_sqrt hl.le⟩

/-- `dt/dl` as computed by the code is `(r'' |r'|² − r' (r'·r'')) / |r'|⁴` -/
theorem dtdl_closed (o : Ops ℝ) (i : In ℝ) (hsqrt : ∀ x, o.sqrt x = Real.sqrt x) (hl : 0 < speedSq i) :
    let rr := i.R0p * (i.R0pp - i.R0) + i.R0 * (2 * i.R0p) + i.Z0p * i.Z0pp
    dtdl0 o i = ((i.R0pp - i.R0) * speedSq i - i.R0p * rr) / speedSq i ^ 2 ∧
    dtdl1 o i = ((2 * i.R0p) * speedSq i - i.R0 * rr) / speedSq i ^ 2 ∧
    dtdl2 o i = (i.Z0pp * speedSq i - i.Z0p * rr) / speedSq i ^ 2 := by
  intro rr
  obtain ⟨hlpos, hll⟩ := d_l_d_phi_sq o i hsqrt hl
  have hne : d_l_d_phi o i ≠ 0 := ne_of_gt hlpos
  have hsne : speedSq i ≠ 0 := ne_of_gt hl
  simp only [dtdl0, dtdl1, dtdl2, d2_l_d_phi2, Nat.cast_ofNat, rr]
  generalize d_l_d_phi o i = l at *
  rw [← hll]
  refine ⟨?_, ?_, ?_⟩ <;> field_simp <;> ring


/-- **(a)** the generated Frenet frame `(t, n, b)` (cylindrical components) is orthonormal and right-handed, at every
point where `|r'|² > 0` and the (generated) curvature is positive. -/
theorem frame_orthonormal_rh (o : Ops ℝ) (i : In ℝ) (hsqrt : ∀ x, o.sqrt x = Real.sqrt x)
    (hl : 0 < speedSq i) (hk : 0 < curvature o i) :
    let t0 := tangent_cylindrical_0 o i; let t1 := tangent_cylindrical_1 o i; let t2 := tangent_cylindrical_2 o i
    let n0 := normal_cylindrical_0 o i; let n1 := normal_cylindrical_1 o i; let n2 := normal_cylindrical_2 o i
    let b0 := binormal_cylindrical_0 o i; let b1 := binormal_cylindrical_1 o i; let b2 := binormal_cylindrical_2 o i
    (t0*t0 + t1*t1 + t2*t2 = 1 ∧ n0*n0 + n1*n1 + n2*n2 = 1 ∧ b0*b0 + b1*b1 + b2*b2 = 1) ∧
    (t0*n0 + t1*n1 + t2*n2 = 0 ∧ t0*b0 + t1*b1 + t2*b2 = 0 ∧ n0*b0 + n1*b1 + n2*b2 = 0) ∧
    (b0 = t1*n2 - t2*n1 ∧ b1 = t2*n0 - t0*n2 ∧ b2 = t0*n1 - t1*n0) ∧
    t0*(n1*b2 - n2*b1) + t1*(n2*b0 - n0*b2) + t2*(n0*b1 - n1*b0) = 1 := by
  intro t0 t1 t2 n0 n1 n2 b0 b1 b2
  obtain ⟨hlpos, hll⟩ := d_l_d_phi_sq o i hsqrt hl
  obtain ⟨hκ, hn0, hn1, hn2⟩ := curvature_is_norm o i hsqrt
  obtain ⟨hd0, hd1, hd2⟩ := dtdl_closed o i hsqrt hl
  have hlne : d_l_d_phi o i ≠ 0 := ne_of_gt hlpos
  have hkne : curvature o i ≠ 0 := ne_of_gt hk
  have hsne : speedSq i ≠ 0 := ne_of_gt hl
  have hkk : curvature o i * curvature o i
      = dtdl0 o i * dtdl0 o i + dtdl1 o i * dtdl1 o i + dtdl2 o i * dtdl2 o i := by
    rw [hκ]
    exact Real.mul_self_sqrt (by nlinarith [mul_self_nonneg (dtdl0 o i), mul_self_nonneg (dtdl1 o i), mul_self_nonneg (dtdl2 o i)])
  have ht : t0*t0 + t1*t1 + t2*t2 = 1 := by
    simp only [t0, t1, t2, tangent_cylindrical_0, tangent_cylindrical_1, tangent_cylindrical_2]
    field_simp
    have h' := hll
    simp only [speedSq] at h'
    linear_combination -h'
  have hn : n0*n0 + n1*n1 + n2*n2 = 1 := by
    simp only [n0, n1, n2, hn0, hn1, hn2]
    field_simp
    rw [pow_two]; linarith
  have htd : t0 * dtdl0 o i + t1 * dtdl1 o i + t2 * dtdl2 o i = 0 := by
    simp only [t0, t1, t2, tangent_cylindrical_0, tangent_cylindrical_1, tangent_cylindrical_2, hd0, hd1, hd2]
    field_simp
    simp only [speedSq]; ring
  have htn : t0*n0 + t1*n1 + t2*n2 = 0 := by
    have : t0*n0 + t1*n1 + t2*n2 = (t0 * dtdl0 o i + t1 * dtdl1 o i + t2 * dtdl2 o i) / curvature o i := by
      simp only [n0, n1, n2, hn0, hn1, hn2]; ring
    rw [this, htd, zero_div]
  have hb0 : b0 = t1*n2 - t2*n1 := rfl
  have hb1 : b1 = t2*n0 - t0*n2 := rfl
  have hb2 : b2 = t0*n1 - t1*n0 := rfl
  refine ⟨⟨ht, hn, ?_⟩, ⟨htn, ?_, ?_⟩, ⟨hb0, hb1, hb2⟩, ?_⟩
  · have : b0*b0 + b1*b1 + b2*b2
        = (t0*t0 + t1*t1 + t2*t2)*(n0*n0 + n1*n1 + n2*n2) - (t0*n0 + t1*n1 + t2*n2)^2 := by
      rw [hb0, hb1, hb2]; ring
    rw [this, ht, hn, htn]; ring
  · rw [hb0, hb1, hb2]; ring
  · rw [hb0, hb1, hb2]; ring
  · have : t0*(n1*b2 - n2*b1) + t1*(n2*b0 - n0*b2) + t2*(n0*b1 - n1*b0)
        = (t0*t0 + t1*t1 + t2*t2)*(n0*n0 + n1*n1 + n2*n2) - (t0*n0 + t1*n1 + t2*n2)^2 := by
      rw [hb0, hb1, hb2]; ring
    rw [this, ht, hn, htn]; ring

/-- **(b)** the tangent is `dr/dl = r'/|r'|`, `r' = (R0p, R0, Z0p)` -/
theorem tangent_is_dr_dl (o : Ops ℝ) (i : In ℝ) (hsqrt : ∀ x, o.sqrt x = Real.sqrt x) :
    tangent_cylindrical_0 o i = i.R0p / Real.sqrt (speedSq i) ∧
    tangent_cylindrical_1 o i = i.R0 / Real.sqrt (speedSq i) ∧
    tangent_cylindrical_2 o i = i.Z0p / Real.sqrt (speedSq i) ∧
    d_l_d_phi o i = Real.sqrt (speedSq i) := by
  have e : d_l_d_phi o i = Real.sqrt (speedSq i) := by rw [← hsqrt]; rfl
  simp only [tangent_cylindrical_0, tangent_cylindrical_1, tangent_cylindrical_2, e, and_self]

/-- **(b)** `κ² |r'|⁶ = |r' × r''|²` -/
theorem curvature_sq (o : Ops ℝ) (i : In ℝ) (hsqrt : ∀ x, o.sqrt x = Real.sqrt x) (hl : 0 < speedSq i) :
    curvature o i ^ 2 * speedSq i ^ 3 = crossSq i.R0 i.R0p i.R0pp i.Z0p i.Z0pp := by
  obtain ⟨hκ, -, -, -⟩ := curvature_is_norm o i hsqrt
  obtain ⟨hd0, hd1, hd2⟩ := dtdl_closed o i hsqrt hl
  have hsne : speedSq i ≠ 0 := ne_of_gt hl
  rw [hκ, Real.sq_sqrt (by nlinarith [mul_self_nonneg (dtdl0 o i), mul_self_nonneg (dtdl1 o i), mul_self_nonneg (dtdl2 o i)]),
    hd0, hd1, hd2]
  field_simp
  simp only [speedSq, crossSq, cross0, cross1, cross2]; ring

/-- **(b)** classical formula `κ = |r' × r''| / |r'|³` for the generated curvature -/
theorem curvature_classical (o : Ops ℝ) (i : In ℝ) (hsqrt : ∀ x, o.sqrt x = Real.sqrt x) (hl : 0 < speedSq i) :
    curvature o i = Real.sqrt (crossSq i.R0 i.R0p i.R0pp i.Z0p i.Z0pp) / d_l_d_phi o i ^ 3 := by
  obtain ⟨hlpos, hll⟩ := d_l_d_phi_sq o i hsqrt hl
  have hk0 : 0 ≤ curvature o i := by rw [(curvature_is_norm o i hsqrt).1]; exact Real.sqrt_nonneg _
  have h := curvature_sq o i hsqrt hl
  have : crossSq i.R0 i.R0p i.R0pp i.Z0p i.Z0pp = (curvature o i * d_l_d_phi o i ^ 3) ^ 2 := by
    rw [← h, ← hll]; ring
  rw [this, Real.sqrt_sq (by positivity)]
  field_simp

/-- curvature is positive exactly where `r' × r'' ≠ 0` -/
theorem curvature_pos_iff (o : Ops ℝ) (i : In ℝ) (hsqrt : ∀ x, o.sqrt x = Real.sqrt x) (hl : 0 < speedSq i) :
    0 < curvature o i ↔ 0 < crossSq i.R0 i.R0p i.R0pp i.Z0p i.Z0pp := by
  have hk0 : 0 ≤ curvature o i := by rw [(curvature_is_norm o i hsqrt).1]; exact Real.sqrt_nonneg _
  rw [← curvature_sq o i hsqrt hl]
  constructor
  · intro h; positivity
  · intro h
    rcases hk0.lt_or_eq with h' | h'
    · exact h'
    · rw [← h'] at h; simp at h

/-- **(a)** with hypotheses on the inputs only: `|r'|² > 0` and `|r' × r''|² > 0` -/
theorem frame_orthonormal_rh' (o : Ops ℝ) (i : In ℝ) (hsqrt : ∀ x, o.sqrt x = Real.sqrt x)
    (hl : 0 < speedSq i) (hc : 0 < crossSq i.R0 i.R0p i.R0pp i.Z0p i.Z0pp) :
    let t0 := tangent_cylindrical_0 o i; let t1 := tangent_cylindrical_1 o i; let t2 := tangent_cylindrical_2 o i
    let n0 := normal_cylindrical_0 o i; let n1 := normal_cylindrical_1 o i; let n2 := normal_cylindrical_2 o i
    let b0 := binormal_cylindrical_0 o i; let b1 := binormal_cylindrical_1 o i; let b2 := binormal_cylindrical_2 o i
    (t0*t0 + t1*t1 + t2*t2 = 1 ∧ n0*n0 + n1*n1 + n2*n2 = 1 ∧ b0*b0 + b1*b1 + b2*b2 = 1) ∧
    (t0*n0 + t1*n1 + t2*n2 = 0 ∧ t0*b0 + t1*b1 + t2*b2 = 0 ∧ n0*b0 + n1*b1 + n2*b2 = 0) ∧
    (b0 = t1*n2 - t2*n1 ∧ b1 = t2*n0 - t0*n2 ∧ b2 = t0*n1 - t1*n0) ∧
    t0*(n1*b2 - n2*b1) + t1*(n2*b0 - n0*b2) + t2*(n0*b1 - n1*b0) = 1 :=
  frame_orthonormal_rh o i hsqrt hl ((curvature_pos_iff o i hsqrt hl).mpr hc)

end frame

/-- **(b)** the generated torsion is `r'·(r''×r''') / |r'×r''|²` (a polynomial identity of numerator and denominator;
any field) -/
theorem torsion_formula {K : Type} [Field K] (o : Ops K) (i : Gen.Axis.In K) :
    Gen.Axis.torsion o i
      = triple i.R0 i.R0p i.R0pp i.R0ppp i.Z0p i.Z0pp i.Z0ppp / crossSq i.R0 i.R0p i.R0pp i.Z0p i.Z0pp := by
  have hn : Gen.Axis.torsion_numerator o i = triple i.R0 i.R0p i.R0pp i.R0ppp i.Z0p i.Z0pp i.Z0ppp := by
    simp only [Gen.Axis.torsion_numerator, triple, dot3, cross0, cross1, cross2, Nat.cast_ofNat]
  have hd : Gen.Axis.torsion_denominator o i = crossSq i.R0 i.R0p i.R0pp i.Z0p i.Z0pp := by
    simp only [Gen.Axis.torsion_denominator, crossSq, cross0, cross1, cross2, Nat.cast_ofNat]; ring
  rw [Gen.Axis.torsion, hn, hd]


/-! ## (c): Boozer normalisations — any field carrier, `o.sum` abstract -/
section booz
variable {K : Type} [Field K]
open Gen.Axis

/-- `abs_G0_over_B0 = d_l_d_varphi = Σ d_l_d_phi / nphi` (the grid mean of `dl/dφ`) -/
theorem abs_G0_over_B0_eq (o : Ops K) (i : In K) :
    abs_G0_over_B0 o i = o.sum (d_l_d_phi o i) / o.nphi ∧ d_l_d_varphi o i = o.sum (d_l_d_phi o i) / o.nphi := by
  simp only [abs_G0_over_B0, d_l_d_varphi, B0_over_abs_G0, Nat.cast_one, one_div, inv_div, and_self]

/-- `dvarphi/dφ = (dl/dφ)·nphi / Σ dl/dφ` -/
theorem d_varphi_d_phi_eq (o : Ops K) (i : In K) :
    d_varphi_d_phi o i = d_l_d_phi o i * o.nphi / o.sum (d_l_d_phi o i) := by
  simp only [d_varphi_d_phi, B0_over_abs_G0]; ring

/-- `G0 = sG·B0·L/(2π)` with `L = axis_length`, given that the grid covers one field period:
`nphi·d_phi·nfp = 2π` -/
theorem G0_axis_length [CharZero K] (o : Ops K) (i : In K) (hgrid : o.nphi * i.d_phi * i.nfp = 2 * o.pi) (hpi : o.pi ≠ 0) :
    G0 o i = i.sG * i.B0 * axis_length o i / (2 * o.pi) := by
  have h2pi : (2 : K) * o.pi ≠ 0 := mul_ne_zero two_ne_zero hpi
  rw [← hgrid] at h2pi
  have hnphi : o.nphi ≠ 0 := fun h => h2pi (by rw [h]; ring)
  have hdphi : i.d_phi ≠ 0 := fun h => h2pi (by rw [h]; ring)
  have hnfp : i.nfp ≠ 0 := fun h => h2pi (by rw [h]; ring)
  rw [← hgrid]
  simp only [G0, d_l_d_varphi, B0_over_abs_G0, axis_length, Nat.cast_one, one_div, inv_div]
  generalize o.sum (d_l_d_phi o i) = S
  field_simp

theorem Bbar_eq (o : Ops K) (i : In K) : Bbar o i = i.spsi * i.B0 := by unfold Bbar; ring

theorem X1c_eq (o : Ops K) (i : In K) :
    X1c o i = i.etabar / curvature o i ∧ X1s o i = 0 ∧
    etabar_squared_over_curvature_squared o i = i.etabar * i.etabar / (curvature o i * curvature o i) := by
  simp only [X1c, X1s, etabar_squared_over_curvature_squared, Nat.cast_zero, and_self]

end booz

section boozgrid
variable {ι : Type}
open Gen.Axis

/-- grid carrier (`ι → ℝ`, reductions broadcast): the same relation at every grid point -/
theorem G0_axis_length_grid (o : Ops (ι → ℝ)) (i : In (ι → ℝ))
    (hgrid : ∀ j, o.nphi j * i.d_phi j * i.nfp j = 2 * o.pi j) (hpi : ∀ j, o.pi j ≠ 0) :
    G0 o i = i.sG * i.B0 * axis_length o i / (2 * o.pi) := by
  funext j
  have hg := hgrid j
  have h2pi : (2 : ℝ) * o.pi j ≠ 0 := mul_ne_zero two_ne_zero (hpi j)
  rw [← hg] at h2pi
  have hnphi : o.nphi j ≠ 0 := fun h => h2pi (by rw [h]; ring)
  have hdphi : i.d_phi j ≠ 0 := fun h => h2pi (by rw [h]; ring)
  have hnfp : i.nfp j ≠ 0 := fun h => h2pi (by rw [h]; ring)
  simp only [G0, d_l_d_varphi, B0_over_abs_G0, axis_length, Pi.mul_apply, Pi.div_apply, Pi.ofNat_apply,
    Nat.cast_one, one_div, inv_div]
  rw [← hg]
  generalize o.sum (d_l_d_phi o i) j = S
  field_simp

theorem d_varphi_d_phi_grid (o : Ops (ι → ℝ)) (i : In (ι → ℝ)) :
    d_varphi_d_phi o i = d_l_d_phi o i * o.nphi / o.sum (d_l_d_phi o i) ∧
    abs_G0_over_B0 o i = o.sum (d_l_d_phi o i) / o.nphi := by
  constructor
  · funext j; simp only [d_varphi_d_phi, B0_over_abs_G0, Pi.mul_apply, Pi.div_apply]; ring
  · funext j
    simp only [abs_G0_over_B0, d_l_d_varphi, B0_over_abs_G0, Pi.div_apply, Pi.one_apply, Nat.cast_one, one_div, inv_div]

end boozgrid

/-! ## (d): `r1_diagnostics` -/
section r1d
open Gen.R1d

/-- `Y1s = sG·spsi·κ/η̄`, `Y1c = Y1s·σ` (any field) -/
theorem Y1_formulas {K : Type} [Field K] (o : Ops K) (i : In K) :
    Y1s o i = i.sG * i.spsi * i.curvature / i.etabar ∧ Y1c o i = Y1s o i * i.sigma := by
  refine ⟨rfl, ?_⟩
  simp only [Y1c, Y1s]; ring

/-- helicity 0: the untwisted coefficients are the twisted ones -/
theorem untwist_h0 {K : Type} [Field K] (o : Ops K) (i : In K) :
    X1s_untwisted_h0 o i = i.X1s ∧ X1c_untwisted_h0 o i = i.X1c ∧
    Y1s_untwisted_h0 o i = Y1s o i ∧ Y1c_untwisted_h0 o i = Y1c o i := ⟨rfl, rfl, rfl, rfl⟩

set_option linter.unnecessarySeqFocus false in
/-- helicity ≠ 0, closed form: with `a = −helicity·nfp·varphi` the untwisted pairs are the twisted ones rotated by
`a`.  Proved up to ring normalisation of the angle and the parities `cos(−x) = cos x`, `sin(−x) = −sin x`, so it does not
matter whether the source evaluates the trigonometric functions at `a` or at `−a`. -/
theorem untwist_hN_closed (o : Ops ℝ) (i : In ℝ) (hcos : ∀ x, o.cos x = Real.cos x) (hsin : ∀ x, o.sin x = Real.sin x) :
    let a := -i.helicity * i.nfp * i.varphi
    X1s_untwisted_hN o i = i.X1s * Real.cos a + i.X1c * Real.sin a ∧
    X1c_untwisted_hN o i = i.X1c * Real.cos a - i.X1s * Real.sin a ∧
    Y1s_untwisted_hN o i = Y1s o i * Real.cos a + Y1c o i * Real.sin a ∧
    Y1c_untwisted_hN o i = Y1c o i * Real.cos a - Y1s o i * Real.sin a := by
  intro a
  simp only [a, X1c_untwisted_hN, X1s_untwisted_hN, Y1c_untwisted_hN, Y1s_untwisted_hN, qsc_local, hcos, hsin]
  generalize Y1c o i = y1c
  generalize Y1s o i = y1s
  refine ⟨?_, ?_, ?_, ?_⟩ <;>
    first
      | rfl
      | ring1
      | ((try ring_nf) <;> (try simp only [Real.cos_neg, Real.sin_neg]) <;> (try ring1))

/-- helicity ≠ 0: with `a = −helicity·nfp·varphi`, the untwisted coefficients describe the **same** first-order
surface in the rotated poloidal angle: for every `θ`,
`X1c_u cos θ + X1s_u sin θ = X1c cos(θ − a) + X1s sin(θ − a)`, and likewise for `Y1`. -/
theorem untwist_same_surface_1 (o : Ops ℝ) (i : In ℝ) (hcos : ∀ x, o.cos x = Real.cos x) (hsin : ∀ x, o.sin x = Real.sin x)
    (θ : ℝ) :
    let a := -i.helicity * i.nfp * i.varphi
    X1c_untwisted_hN o i * Real.cos θ + X1s_untwisted_hN o i * Real.sin θ
        = i.X1c * Real.cos (θ - a) + i.X1s * Real.sin (θ - a) ∧
    Y1c_untwisted_hN o i * Real.cos θ + Y1s_untwisted_hN o i * Real.sin θ
        = Y1c o i * Real.cos (θ - a) + Y1s o i * Real.sin (θ - a) := by
  intro a
  obtain ⟨h1, h2, h3, h4⟩ := untwist_hN_closed o i hcos hsin
  rw [h1, h2, h3, h4, Real.cos_sub, Real.sin_sub]
  generalize Y1c o i = y1c
  generalize Y1s o i = y1s
  constructor <;> ring

/-- the untwisting is a rotation of the coefficient pairs: it preserves `X1s²+X1c²`, `Y1s²+Y1c²` and the
determinant `X1s·Y1c − X1c·Y1s` (hence `p`, `q` and the elongation) -/
theorem untwist_invariants (o : Ops ℝ) (i : In ℝ) (hcos : ∀ x, o.cos x = Real.cos x) (hsin : ∀ x, o.sin x = Real.sin x) :
    X1s_untwisted_hN o i ^ 2 + X1c_untwisted_hN o i ^ 2 = i.X1s ^ 2 + i.X1c ^ 2 ∧
    Y1s_untwisted_hN o i ^ 2 + Y1c_untwisted_hN o i ^ 2 = Y1s o i ^ 2 + Y1c o i ^ 2 ∧
    X1s_untwisted_hN o i * Y1c_untwisted_hN o i - X1c_untwisted_hN o i * Y1s_untwisted_hN o i
      = i.X1s * Y1c o i - i.X1c * Y1s o i := by
  obtain ⟨h1, h2, h3, h4⟩ := untwist_hN_closed o i hcos hsin
  rw [h1, h2, h3, h4]
  generalize Y1c o i = y1c
  generalize Y1s o i = y1s
  have h := Real.sin_sq_add_cos_sq (-i.helicity * i.nfp * i.varphi)
  generalize Real.sin (-i.helicity * i.nfp * i.varphi) = s at *
  generalize Real.cos (-i.helicity * i.nfp * i.varphi) = c at *
  refine ⟨?_, ?_, ?_⟩
  · linear_combination (i.X1s ^ 2 + i.X1c ^ 2) * h
  · linear_combination (y1s ^ 2 + y1c ^ 2) * h
  · linear_combination (i.X1s * y1c - i.X1c * y1s) * h

/-- real-number core: `e = (p + √(p² − 4q²))/(2|q|)`, `p = ‖M‖_F²`, `q = det M`, `M = [[X1s, X1c],[Y1s, Y1c]]` -/
theorem elong_core (X1s X1c Y1s Y1c : ℝ) (hq : X1s*Y1c - X1c*Y1s ≠ 0) :
    let p := X1s*X1s + X1c*X1c + Y1s*Y1s + Y1c*Y1c
    let q := X1s*Y1c - X1c*Y1s
    let e := (p + Real.sqrt (p*p - 4*q*q)) / (2 * |q|)
    1 ≤ e ∧ e + 1 / e = p / |q| := by
  intro p q e
  have hapos : 0 < |q| := abs_pos.mpr hq
  have haa : |q| * |q| = q * q := abs_mul_abs_self q
  have h1 : 0 ≤ p - 2*q := by
    have : p - 2*q = (X1s - Y1c)^2 + (X1c + Y1s)^2 := by simp only [p, q]; ring
    rw [this]; positivity
  have h2 : 0 ≤ p + 2*q := by
    have : p + 2*q = (X1s + Y1c)^2 + (X1c - Y1s)^2 := by simp only [p, q]; ring
    rw [this]; positivity
  have hpa : 2 * |q| ≤ p := by
    rcases abs_cases q with ⟨h, _⟩ | ⟨h, _⟩ <;> rw [h] <;> linarith
  have hrad : 0 ≤ p*p - 4*q*q := by nlinarith
  have hs0 : 0 ≤ Real.sqrt (p*p - 4*q*q) := Real.sqrt_nonneg _
  have hss : Real.sqrt (p*p - 4*q*q) * Real.sqrt (p*p - 4*q*q) = p*p - 4*q*q := Real.mul_self_sqrt hrad
  simp only [e]
  generalize Real.sqrt (p*p - 4*q*q) = s at *
  generalize |q| = a at *
  have hden : 0 < p + s := by linarith
  constructor
  · rw [le_div_iff₀ (by positivity)]; linarith
  · have hne : p + s ≠ 0 := ne_of_gt hden
    have hane : a ≠ 0 := ne_of_gt hapos
    field_simp
    nlinarith [hss, haa]

/-- the generated `elongation` is ≥ 1 and satisfies `e + 1/e = p/|q|`, i.e. it is the ratio `σ₁/σ₂ ≥ 1` of the singular
values of `[[X1s, X1c],[Y1s, Y1c]]` (`σ₁² + σ₂² = p`, `σ₁σ₂ = |q|`), wherever `q ≠ 0` -/
theorem elongation_char (o : Ops ℝ) (i : In ℝ) (hsqrt : ∀ x, o.sqrt x = Real.sqrt x) (habs : ∀ x, o.abs x = |x|)
    (hq : i.X1s * Y1c o i - i.X1c * Y1s o i ≠ 0) :
    1 ≤ elongation o i ∧
    elongation o i + 1 / elongation o i
      = (i.X1s * i.X1s + i.X1c * i.X1c + Y1s o i * Y1s o i + Y1c o i * Y1c o i) / |i.X1s * Y1c o i - i.X1c * Y1s o i| := by
  have h := elong_core i.X1s i.X1c (Y1s o i) (Y1c o i) hq
  have e : elongation o i = (((i.X1s * i.X1s + i.X1c * i.X1c + Y1s o i * Y1s o i + Y1c o i * Y1c o i)
      + Real.sqrt ((i.X1s * i.X1s + i.X1c * i.X1c + Y1s o i * Y1s o i + Y1c o i * Y1c o i)
          * (i.X1s * i.X1s + i.X1c * i.X1c + Y1s o i * Y1s o i + Y1c o i * Y1c o i)
        - 4 * (i.X1s * Y1c o i - i.X1c * Y1s o i) * (i.X1s * Y1c o i - i.X1c * Y1s o i)))
      / (2 * |i.X1s * Y1c o i - i.X1c * Y1s o i|)) := by
    simp only [elongation, qsc_local, hsqrt, habs, Nat.cast_ofNat] <;>
      first | rfl | ring_congr | (simp only [abs_mul, abs_two]; ring_congr)
  rw [e]
  exact h

end r1d

#print axioms frame_orthonormal_rh
#print axioms frame_orthonormal_rh'
#print axioms tangent_is_dr_dl
#print axioms curvature_is_norm
#print axioms curvature_sq
#print axioms curvature_classical
#print axioms curvature_pos_iff
#print axioms torsion_formula
#print axioms G0_axis_length
#print axioms G0_axis_length_grid
#print axioms d_varphi_d_phi_eq
#print axioms abs_G0_over_B0_eq
#print axioms elongation_char
#print axioms untwist_same_surface_1
#print axioms untwist_invariants
end C03
