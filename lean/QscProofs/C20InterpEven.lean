import Mathlib.Analysis.SpecialFunctions.Trigonometric.Basic
import Mathlib.Algebra.BigOperators.Group.Finset.Basic
import Mathlib.Algebra.BigOperators.Ring.Finset
import Mathlib.Tactic.Ring
import Mathlib.Tactic.FieldSimp
import Mathlib.Tactic.Linarith
import Mathlib.Analysis.Real.Pi.Bounds
import QscProofs.C20Interp
/-! C20, interpolation clause, even `N = 2t` (`t ≥ 1`).  The kernel of `fourier_interpolation` is then
`1 / tan((x - x_k)/2)`.  At `ℝ` (`guard = id`), for every `x` that is not a node:

* the denominator has the closed form `den · sin(N x/2) = N` (so it never vanishes);
* every mode `sin(a + p x)` with `2p < N` is interpolated exactly;
* the Nyquist cosine `cos(t x_k) = (-1)^k` is interpolated as `cos(t x)`; the Nyquist sine `sin(t x_k) = 0` has
  vanishing samples and is interpolated as `0` (so it is *not* reproduced).

No `cos ≠ 0` hypothesis is needed: in Lean's totalised real arithmetic `1 / tan y = cos y / sin y` whenever
`sin y ≠ 0` (if `cos y = 0` both sides are `0`, which is also the true value of `cot y` there). -/
namespace C20InterpEven
open Hand.Interp C20Interp

/-- `1 / tan y = cos y / sin y`; holds for every `y` in totalised arithmetic (no hypothesis at all is needed) -/
theorem one_div_tan (y : ℝ) : 1 / Real.tan y = Real.cos y / Real.sin y := by
  rw [Real.tan_eq_sin_div_cos, one_div_div]

/-- `2 sin y · Σ_{m<t} cos((2m+1) y) = sin(2 t y)` -/
theorem sin_mul_dirichlet_even (t : ℕ) (y : ℝ) :
    2 * Real.sin y * ∑ m ∈ Finset.range t, Real.cos ((2 * (m : ℝ) + 1) * y) = Real.sin (2 * t * y) := by
  induction t with
  | zero => simp
  | succ t ih =>
    rw [Finset.sum_range_succ, mul_add, ih, two_sin_mul_cos]
    have e1 : (2 * (t : ℝ) + 1) * y + y = 2 * ((t + 1 : ℕ) : ℝ) * y := by push_cast; ring
    have e2 : (2 * (t : ℝ) + 1) * y - y = 2 * t * y := by ring
    rw [e1, e2]; ring

/-- `2 sin y · Σ_{m<t} [cos(2m y) + cos((2m+2) y)] = 2 cos y · sin(2 t y)` -/
theorem sin_mul_cot_dirichlet (t : ℕ) (y : ℝ) :
    2 * Real.sin y * ∑ m ∈ Finset.range t, (Real.cos (2 * (m : ℝ) * y) + Real.cos ((2 * (m : ℝ) + 2) * y)) =
      2 * Real.cos y * Real.sin (2 * t * y) := by
  rw [← sin_mul_dirichlet_even t y]
  have : ∀ m ∈ Finset.range t, Real.cos (2 * (m : ℝ) * y) + Real.cos ((2 * (m : ℝ) + 2) * y) =
      2 * Real.cos y * Real.cos ((2 * (m : ℝ) + 1) * y) := by
    intro m _
    have e1 : 2 * (m : ℝ) * y = (2 * (m : ℝ) + 1) * y - y := by ring
    have e2 : (2 * (m : ℝ) + 2) * y = (2 * (m : ℝ) + 1) * y + y := by ring
    rw [e1, e2, Real.cos_sub, Real.cos_add]; ring
  rw [Finset.sum_congr rfl this, ← Finset.mul_sum]; ring

/-- orthogonality: `Σ_k cos(q (x - x_k)) = 0` for `0 < q < N` (written with the half-angle `φ_k = (x - x_k)/2`) -/
theorem sum_cos_mode_even {q N : ℕ} (hq : 0 < q) (hqN : q < N) (c : ℝ) (hc : c = 2 * q) (x : ℝ) :
    ∑ k ∈ Finset.range N, Real.cos (c * (1 / 2 * (x - 2 * Real.pi * k / N))) = 0 := by
  rw [← sum_cos_arith hq hqN (-(q * x))]
  refine Finset.sum_congr rfl (fun k _ => ?_)
  rw [← Real.cos_neg]; congr 1
  rw [hc]; ring

/-- alternating sums of modes below the Nyquist limit vanish (even `N = 2t`) -/
theorem sum_alt_cos_even {N t r : ℕ} (hN : N = 2 * t) (hr : r < t) (c : ℝ) (hc : c = r) (α : ℝ) :
    ∑ k ∈ Finset.range N, (-1) ^ k * Real.cos (α + c * (2 * Real.pi * k / N)) = 0 := by
  have hN' : (N : ℝ) ≠ 0 := by
    have : 0 < N := by omega
    positivity
  rw [← sum_cos_arith (q := r + t) (N := N) (by omega) (by omega) α]
  refine Finset.sum_congr rfl (fun k _ => ?_)
  rw [← Real.cos_add_nat_mul_pi]; congr 1
  rw [hc]; field_simp; rw [hN]; push_cast; ring

/-- closed form of the barycentric denominator for even `N`: `den(x) · sin(N x / 2) = N` away from the nodes -/
theorem den_mul_sin_even {N t : ℕ} (hN : N = 2 * t) (ht : 0 < t) (x : ℝ)
    (hnode : ∀ k < N, Real.sin (1 / 2 * (x - 2 * Real.pi * k / N)) ≠ 0) :
    (∑ k ∈ Finset.range N, 1 / Real.tan (1 / 2 * (x - 2 * Real.pi * k / N)) * (-1) ^ k)
      * Real.sin (N * x / 2) = N := by
  have hN' : (N : ℝ) ≠ 0 := by
    have : 0 < N := by omega
    positivity
  have hNt : (N : ℝ) = 2 * t := by rw [hN]; push_cast; ring
  have term : ∀ k ∈ Finset.range N,
      1 / Real.tan (1 / 2 * (x - 2 * Real.pi * k / N)) * (-1) ^ k * Real.sin (N * x / 2) =
      ∑ m ∈ Finset.range t, (Real.cos (2 * (m : ℝ) * (1 / 2 * (x - 2 * Real.pi * k / N)))
        + Real.cos ((2 * (m : ℝ) + 2) * (1 / 2 * (x - 2 * Real.pi * k / N)))) := by
    intro k hk
    have hφ := hnode k (Finset.mem_range.mp hk)
    have e : (N : ℝ) * x / 2 = 2 * t * (1 / 2 * (x - 2 * Real.pi * k / N)) + k * Real.pi := by
      rw [← hNt]; field_simp; ring
    obtain ⟨φ, hφdef⟩ : ∃ φ : ℝ, φ = 1 / 2 * (x - 2 * Real.pi * k / N) := ⟨_, rfl⟩
    rw [e]
    rw [← hφdef] at hφ ⊢
    have hC := sin_mul_cot_dirichlet t φ
    have hS : ∑ m ∈ Finset.range t, (Real.cos (2 * (m : ℝ) * φ) + Real.cos ((2 * (m : ℝ) + 2) * φ)) =
        Real.cos φ * Real.sin (2 * t * φ) / Real.sin φ := by
      rw [eq_div_iff hφ]; linarith [hC]
    have hsq : ((-1 : ℝ) ^ k) * (-1) ^ k = 1 := by rw [← mul_pow]; norm_num
    rw [hS, Real.sin_add_nat_mul_pi, one_div_tan]
    have e3 : Real.cos φ / Real.sin φ * (-1) ^ k * ((-1) ^ k * Real.sin (2 * t * φ)) =
        ((-1) ^ k * (-1) ^ k) * (Real.cos φ * Real.sin (2 * t * φ) / Real.sin φ) := by ring
    rw [e3, hsq, one_mul]
  rw [Finset.sum_mul, Finset.sum_congr rfl term, Finset.sum_comm,
    Finset.sum_eq_single_of_mem 0 (Finset.mem_range.mpr ht) ?_]
  · have h1 := sum_cos_mode_even (q := 1) (N := N) (by omega) (by omega) (2 * ((0 : ℕ) : ℝ) + 2)
      (by push_cast; ring) x
    rw [Finset.sum_add_distrib, h1, add_zero]
    simp
  · intro m hm hm0
    have hm := Finset.mem_range.mp hm
    rw [Finset.sum_add_distrib, sum_cos_mode_even (q := m) (by omega) (by omega) _ rfl x,
      sum_cos_mode_even (q := m + 1) (by omega) (by omega) _ (by push_cast; ring) x, add_zero]

theorem den_ne_zero_even' {N t : ℕ} (hN : N = 2 * t) (ht : 0 < t) (x : ℝ)
    (hnode : ∀ k < N, Real.sin (1 / 2 * (x - 2 * Real.pi * k / N)) ≠ 0) :
    (∑ k ∈ Finset.range N, 1 / Real.tan (1 / 2 * (x - 2 * Real.pi * k / N)) * (-1) ^ k) ≠ 0 := by
  intro h
  have := den_mul_sin_even hN ht x hnode
  rw [h, zero_mul] at this
  have hN' : (N : ℝ) ≠ 0 := by
    have : 0 < N := by omega
    positivity
  exact hN' this.symm

/-- away from the nodes `sin(N x / 2) ≠ 0` (even `N`) -/
theorem sin_half_ne_zero {N t : ℕ} (hN : N = 2 * t) (ht : 0 < t) (x : ℝ)
    (hnode : ∀ k < N, Real.sin (1 / 2 * (x - 2 * Real.pi * k / N)) ≠ 0) :
    Real.sin (N * x / 2) ≠ 0 := by
  intro h
  have := den_mul_sin_even hN ht x hnode
  rw [h, mul_zero] at this
  have hN' : (N : ℝ) ≠ 0 := by
    have : 0 < N := by omega
    positivity
  exact hN' this.symm

/-- numerator = value × denominator for the phase-shifted mode `k ↦ sin(a + p x_k)`, `p < t`, `N = 2t` -/
theorem exact_num_even {N t p : ℕ} (hN : N = 2 * t) (hp : p < t) (a x : ℝ)
    (hnode : ∀ k < N, Real.sin (1 / 2 * (x - 2 * Real.pi * k / N)) ≠ 0) :
    ∑ k ∈ Finset.range N, 1 / Real.tan (1 / 2 * (x - 2 * Real.pi * k / N))
        * ((-1) ^ k * Real.sin (a + p * (2 * Real.pi * k / N))) =
      Real.sin (a + p * x) *
        ∑ k ∈ Finset.range N, 1 / Real.tan (1 / 2 * (x - 2 * Real.pi * k / N)) * (-1) ^ k := by
  rw [← sub_eq_zero, Finset.mul_sum, ← Finset.sum_sub_distrib]
  have term : ∀ k ∈ Finset.range N,
      1 / Real.tan (1 / 2 * (x - 2 * Real.pi * k / N)) * ((-1) ^ k * Real.sin (a + p * (2 * Real.pi * k / N)))
        - Real.sin (a + p * x) * (1 / Real.tan (1 / 2 * (x - 2 * Real.pi * k / N)) * (-1) ^ k) =
      -(1 / 2) * ∑ m ∈ Finset.range p,
        (((-1) ^ k * Real.cos ((a + ((p : ℝ) - m) * x) + (m : ℝ) * (2 * Real.pi * k / N))
          + (-1) ^ k * Real.cos ((a + (m : ℝ) * x) + ((p : ℝ) - m) * (2 * Real.pi * k / N)))
        + ((-1) ^ k * Real.cos ((a + ((p : ℝ) - 1 - m) * x) + ((m : ℝ) + 1) * (2 * Real.pi * k / N))
          + (-1) ^ k * Real.cos ((a + ((m : ℝ) + 1) * x) + ((p : ℝ) - 1 - m) * (2 * Real.pi * k / N)))) := by
    intro k hk
    have hφ := hnode k (Finset.mem_range.mp hk)
    obtain ⟨φ, hφdef⟩ : ∃ φ : ℝ, φ = 1 / 2 * (x - 2 * Real.pi * k / N) := ⟨_, rfl⟩
    rw [← hφdef] at hφ ⊢
    have hC := sin_mul_dirichlet p φ
    obtain ⟨M, hM⟩ : ∃ M : ℝ, M = a + p * (x + 2 * Real.pi * k / N) / 2 := ⟨_, rfl⟩
    have e1 : a + p * (2 * Real.pi * k / N) = M - p * φ := by rw [hφdef, hM]; ring
    have e2 : a + p * x = M + p * φ := by rw [hφdef, hM]; ring
    have hsum : ∑ m ∈ Finset.range p,
        (((-1) ^ k * Real.cos ((a + ((p : ℝ) - m) * x) + (m : ℝ) * (2 * Real.pi * k / N))
          + (-1) ^ k * Real.cos ((a + (m : ℝ) * x) + ((p : ℝ) - m) * (2 * Real.pi * k / N)))
        + ((-1) ^ k * Real.cos ((a + ((p : ℝ) - 1 - m) * x) + ((m : ℝ) + 1) * (2 * Real.pi * k / N))
          + (-1) ^ k * Real.cos ((a + ((m : ℝ) + 1) * x) + ((p : ℝ) - 1 - m) * (2 * Real.pi * k / N)))) =
        (-1) ^ k * Real.cos M * Real.cos φ * (4 * ∑ m ∈ Finset.range p, Real.cos (((p : ℝ) - 1 - 2 * m) * φ)) := by
      rw [Finset.mul_sum, Finset.mul_sum]
      refine Finset.sum_congr rfl (fun m _ => ?_)
      have f1 : (a + ((p : ℝ) - m) * x) + (m : ℝ) * (2 * Real.pi * k / N) =
          M + (((p : ℝ) - 1 - 2 * m) * φ + φ) := by rw [hφdef, hM]; ring
      have f2 : (a + (m : ℝ) * x) + ((p : ℝ) - m) * (2 * Real.pi * k / N) =
          M - (((p : ℝ) - 1 - 2 * m) * φ + φ) := by rw [hφdef, hM]; ring
      have f3 : (a + ((p : ℝ) - 1 - m) * x) + ((m : ℝ) + 1) * (2 * Real.pi * k / N) =
          M + (((p : ℝ) - 1 - 2 * m) * φ - φ) := by rw [hφdef, hM]; ring
      have f4 : (a + ((m : ℝ) + 1) * x) + ((p : ℝ) - 1 - m) * (2 * Real.pi * k / N) =
          M - (((p : ℝ) - 1 - 2 * m) * φ - φ) := by rw [hφdef, hM]; ring
      rw [f1, f2, f3, f4]
      simp only [Real.cos_add, Real.cos_sub, Real.sin_add, Real.sin_sub]; ring
    have hS : 4 * ∑ m ∈ Finset.range p, Real.cos (((p : ℝ) - 1 - 2 * m) * φ) = 4 * Real.sin (p * φ) / Real.sin φ := by
      rw [eq_div_iff hφ]; linarith [hC]
    rw [hsum, hS, e1, e2, Real.sin_sub, Real.sin_add, one_div_tan]
    field_simp; ring
  rw [Finset.sum_congr rfl term, ← Finset.mul_sum, Finset.sum_comm]
  refine mul_eq_zero_of_right _ (Finset.sum_eq_zero (fun m hm => ?_))
  have hm := Finset.mem_range.mp hm
  have h1 : ((p - m : ℕ) : ℝ) = (p : ℝ) - m := Nat.cast_sub (by omega)
  have h2 : ((p - 1 - m : ℕ) : ℝ) = (p : ℝ) - 1 - m := by
    rw [Nat.cast_sub (by omega), Nat.cast_sub (by omega)]; simp
  have h3 : ((m + 1 : ℕ) : ℝ) = (m : ℝ) + 1 := by push_cast; ring
  rw [Finset.sum_add_distrib, Finset.sum_add_distrib, Finset.sum_add_distrib,
    sum_alt_cos_even hN (r := m) (by omega) _ rfl,
    sum_alt_cos_even hN (r := p - m) (by omega) _ h1.symm,
    sum_alt_cos_even hN (r := m + 1) (by omega) _ h3.symm,
    sum_alt_cos_even hN (r := p - 1 - m) (by omega) _ h2.symm]
  simp

/-! ### Nyquist mode -/

/-- alternating orthogonality in half-angle form: `Σ_k (-1)^k cos(r (x - x_k)) = 0` for `r < t`, `N = 2t` -/
theorem sum_alt_cos_mode_even {N t r : ℕ} (hN : N = 2 * t) (hr : r < t) (c : ℝ) (hc : c = 2 * r) (x : ℝ) :
    ∑ k ∈ Finset.range N, (-1) ^ k * Real.cos (c * (1 / 2 * (x - 2 * Real.pi * k / N))) = 0 := by
  rw [← sum_alt_cos_even hN hr (r : ℝ) rfl (-(r * x))]
  refine Finset.sum_congr rfl (fun k _ => ?_)
  rw [← Real.cos_neg]; congr 2
  rw [hc]; ring

/-- the classical identity `Σ_k cot((x - x_k)/2) = N cot(N x / 2)` for even `N`, in multiplicative form -/
theorem sum_cot_mul_sin {N t : ℕ} (hN : N = 2 * t) (ht : 0 < t) (x : ℝ)
    (hnode : ∀ k < N, Real.sin (1 / 2 * (x - 2 * Real.pi * k / N)) ≠ 0) :
    (∑ k ∈ Finset.range N, 1 / Real.tan (1 / 2 * (x - 2 * Real.pi * k / N)))
      * Real.sin (N * x / 2) = N * Real.cos (N * x / 2) := by
  have hN' : (N : ℝ) ≠ 0 := by
    have : 0 < N := by omega
    positivity
  have hNt : (N : ℝ) = 2 * t := by rw [hN]; push_cast; ring
  have term : ∀ k ∈ Finset.range N,
      1 / Real.tan (1 / 2 * (x - 2 * Real.pi * k / N)) * Real.sin (N * x / 2) =
      ∑ m ∈ Finset.range t, ((-1) ^ k * Real.cos (2 * (m : ℝ) * (1 / 2 * (x - 2 * Real.pi * k / N)))
        + (-1) ^ k * Real.cos ((2 * (m : ℝ) + 2) * (1 / 2 * (x - 2 * Real.pi * k / N)))) := by
    intro k hk
    have hφ := hnode k (Finset.mem_range.mp hk)
    have e : (N : ℝ) * x / 2 = 2 * t * (1 / 2 * (x - 2 * Real.pi * k / N)) + k * Real.pi := by
      rw [← hNt]; field_simp; ring
    obtain ⟨φ, hφdef⟩ : ∃ φ : ℝ, φ = 1 / 2 * (x - 2 * Real.pi * k / N) := ⟨_, rfl⟩
    rw [e]
    rw [← hφdef] at hφ ⊢
    have hC := sin_mul_cot_dirichlet t φ
    have hS : ∑ m ∈ Finset.range t, (Real.cos (2 * (m : ℝ) * φ) + Real.cos ((2 * (m : ℝ) + 2) * φ)) =
        Real.cos φ * Real.sin (2 * t * φ) / Real.sin φ := by
      rw [eq_div_iff hφ]; linarith [hC]
    simp only [← mul_add]
    rw [← Finset.mul_sum, hS, Real.sin_add_nat_mul_pi, one_div_tan]; ring
  obtain ⟨t', rfl⟩ : ∃ t', t = t' + 1 := ⟨t - 1, by omega⟩
  rw [Finset.sum_mul, Finset.sum_congr rfl term, Finset.sum_comm,
    Finset.sum_eq_single_of_mem t' (Finset.mem_range.mpr (by omega)) ?_]
  · have hlast : ∀ k ∈ Finset.range N,
        (-1 : ℝ) ^ k * Real.cos ((2 * (t' : ℝ) + 2) * (1 / 2 * (x - 2 * Real.pi * k / N))) =
          Real.cos (N * x / 2) := by
      intro k _
      have e : (2 * (t' : ℝ) + 2) * (1 / 2 * (x - 2 * Real.pi * k / N)) = N * x / 2 - k * Real.pi := by
        have : (2 * (t' : ℝ) + 2) = N := by rw [hNt]; push_cast; ring
        rw [this]; field_simp
      have hsq : ((-1 : ℝ) ^ k) * (-1) ^ k = 1 := by rw [← mul_pow]; norm_num
      rw [e, Real.cos_sub_nat_mul_pi, ← mul_assoc, hsq, one_mul]
    rw [Finset.sum_add_distrib, sum_alt_cos_mode_even hN (r := t') (by omega) _ rfl x, zero_add,
      Finset.sum_congr rfl hlast]
    simp
  · intro m hm hmt
    have hm := Finset.mem_range.mp hm
    rw [Finset.sum_add_distrib, sum_alt_cos_mode_even hN (r := m) (by omega) _ rfl x,
      sum_alt_cos_mode_even hN (r := m + 1) (by omega) _ (by push_cast; ring) x, add_zero]

/-! ### statements about the model -/

theorem interp_eq_even {N : ℕ} (heven : N % 2 = 0) (f : ℕ → ℝ) (x : ℝ) :
    interp Real.sin Real.tan id Real.pi f N x =
      (∑ k ∈ Finset.range N, 1 / Real.tan (1 / 2 * (x - 2 * Real.pi * k / N)) * ((-1) ^ k * f k)) /
        (∑ k ∈ Finset.range N, 1 / Real.tan (1 / 2 * (x - 2 * Real.pi * k / N)) * (-1) ^ k) := by
  rw [interp_eq]; simp only [K_eq, sgn_eq, if_pos heven]

/-- the barycentric denominator of the model in closed form (even `N > 0`, `x` not a node): `den · sin(N x / 2) = N`,
i.e. `Σ_k (-1)^k cot((x - x_k)/2) = N / sin(N x / 2)` -/
theorem den_closed_form_even {N : ℕ} (heven : N % 2 = 0) (hN : 0 < N) (x : ℝ)
    (hnode : ∀ k < N, Real.sin (1 / 2 * (x - node Real.pi N k)) ≠ 0) :
    sumRange (fun k => kern Real.sin Real.tan id Real.pi N k x * sgn k) N * Real.sin (N * x / 2) = N := by
  simp only [node_eq] at hnode
  rw [sumRange_eq]
  have := den_mul_sin_even (N := N) (t := N / 2) (by omega) (by omega) x hnode
  simpa only [K_eq, sgn_eq, if_pos heven] using this

/-- hence the denominator hypothesis of `interp_const` holds automatically for even `N > 0` away from the nodes -/
theorem den_ne_zero_even {N : ℕ} (heven : N % 2 = 0) (hN : 0 < N) (x : ℝ)
    (hnode : ∀ k < N, Real.sin (1 / 2 * (x - node Real.pi N k)) ≠ 0) :
    sumRange (fun k => kern Real.sin Real.tan id Real.pi N k x * sgn k) N ≠ 0 := by
  intro h
  have := den_closed_form_even heven hN x hnode
  rw [h, zero_mul] at this
  have hN' : (N : ℝ) ≠ 0 := by positivity
  exact hN' this.symm

theorem interp_const_even (c : ℝ) {N : ℕ} (heven : N % 2 = 0) (hN : 0 < N) (x : ℝ)
    (hnode : ∀ k < N, Real.sin (1 / 2 * (x - node Real.pi N k)) ≠ 0) :
    interp Real.sin Real.tan id Real.pi (fun _ => c) N x = c :=
  interp_const c N x (den_ne_zero_even heven hN x hnode)

/-- exactness on every resolvable mode with arbitrary phase: even `N`, `2p < N`, `x` not a node -/
theorem interp_exact_phase_even {N p : ℕ} (heven : N % 2 = 0) (hp : 2 * p < N) (a x : ℝ)
    (hnode : ∀ k < N, Real.sin (1 / 2 * (x - node Real.pi N k)) ≠ 0) :
    interp Real.sin Real.tan id Real.pi (fun k => Real.sin (a + p * node Real.pi N k)) N x =
      Real.sin (a + p * x) := by
  simp only [node_eq] at hnode ⊢
  have hN : N = 2 * (N / 2) := by omega
  rw [interp_eq_even heven, div_eq_iff (den_ne_zero_even' hN (by omega) x hnode)]
  exact exact_num_even hN (by omega) a x hnode

theorem interp_exact_sin_even {N p : ℕ} (heven : N % 2 = 0) (hp : 2 * p < N) (x : ℝ)
    (hnode : ∀ k < N, Real.sin (1 / 2 * (x - node Real.pi N k)) ≠ 0) :
    interp Real.sin Real.tan id Real.pi (fun k => Real.sin (p * node Real.pi N k)) N x = Real.sin (p * x) := by
  have := interp_exact_phase_even heven hp 0 x hnode
  simpa only [zero_add] using this

theorem interp_exact_cos_even {N p : ℕ} (heven : N % 2 = 0) (hp : 2 * p < N) (x : ℝ)
    (hnode : ∀ k < N, Real.sin (1 / 2 * (x - node Real.pi N k)) ≠ 0) :
    interp Real.sin Real.tan id Real.pi (fun k => Real.cos (p * node Real.pi N k)) N x = Real.cos (p * x) := by
  have h : ∀ y : ℝ, Real.cos y = Real.sin (Real.pi / 2 + y) := fun y => by
    rw [add_comm, Real.sin_add_pi_div_two]
  simp only [h]
  exact interp_exact_phase_even heven hp (Real.pi / 2) x hnode

/-- the alternating data `(-1)^k` (the samples of the Nyquist cosine) are interpolated as `cos(N x / 2)` -/
theorem interp_nyquist_alt {N : ℕ} (heven : N % 2 = 0) (hN : 0 < N) (x : ℝ)
    (hnode : ∀ k < N, Real.sin (1 / 2 * (x - node Real.pi N k)) ≠ 0) :
    interp Real.sin Real.tan id Real.pi (fun k => (-1) ^ k) N x = Real.cos (N * x / 2) := by
  simp only [node_eq] at hnode
  have hNt : N = 2 * (N / 2) := by omega
  have ht : 0 < N / 2 := by omega
  have hs := sin_half_ne_zero hNt ht x hnode
  have hden := den_mul_sin_even hNt ht x hnode
  have hnum := sum_cot_mul_sin hNt ht x hnode
  rw [interp_eq_even heven, div_eq_iff (den_ne_zero_even' hNt ht x hnode)]
  have hsq : ∀ k : ℕ, ((-1 : ℝ) ^ k) * (-1) ^ k = 1 := fun k => by rw [← mul_pow]; norm_num
  simp only [hsq, mul_one]
  apply mul_right_cancel₀ hs
  rw [hnum, mul_assoc, hden]; ring

/-- Nyquist cosine, even `N = 2t`: the data `cos(t x_k) = (-1)^k` are interpolated as `cos(t x)`.

The Nyquist *sine* is not reproduced: its samples `sin(t x_k) = sin(k π)` all vanish, so it is interpolated as `0`
(`interp_nyquist_sin` below).  Consequently data `sin(a + t x_k) = sin a · (-1)^k` are interpolated as
`sin a · cos(t x)`, not `sin(a + t x)`: the even-`N` formula interpolates in
`span{1, cos x, sin x, …, cos((t-1)x), sin((t-1)x), cos(t x)}`. -/
theorem interp_exact_nyquist_cos {N t : ℕ} (hN : N = 2 * t) (ht : 0 < t) (x : ℝ)
    (hnode : ∀ k < N, Real.sin (1 / 2 * (x - node Real.pi N k)) ≠ 0) :
    interp Real.sin Real.tan id Real.pi (fun k => Real.cos (t * node Real.pi N k)) N x = Real.cos (t * x) := by
  have hN' : (N : ℝ) ≠ 0 := by
    have : 0 < N := by omega
    positivity
  have hNt : (N : ℝ) = 2 * t := by rw [hN]; push_cast; ring
  have hdata : (fun k : ℕ => Real.cos (t * node Real.pi N k)) = fun k : ℕ => (-1 : ℝ) ^ k := by
    funext k
    rw [← Real.cos_nat_mul_pi, node_eq]; congr 1
    field_simp; rw [hNt]; ring
  rw [hdata, interp_nyquist_alt (by omega) (by omega) x hnode]
  congr 1; rw [hNt]; ring

/-- Nyquist sine, even `N = 2t`: the samples `sin(t x_k)` vanish, so the interpolant is identically `0`
(at every `x`, node or not) -/
theorem interp_nyquist_sin {N t : ℕ} (hN : N = 2 * t) (ht : 0 < t) (x : ℝ) :
    interp Real.sin Real.tan id Real.pi (fun k => Real.sin (t * node Real.pi N k)) N x = 0 := by
  have hN' : (N : ℝ) ≠ 0 := by
    have : 0 < N := by omega
    positivity
  have hNt : (N : ℝ) = 2 * t := by rw [hN]; push_cast; ring
  have hdata : (fun k : ℕ => Real.sin (t * node Real.pi N k)) = fun _ : ℕ => (0 : ℝ) := by
    funext k
    rw [← Real.sin_nat_mul_pi k, node_eq]; congr 1
    field_simp; rw [hNt]; ring
  rw [hdata, interp_eq]; simp

/-! ### all `N` -/

theorem den_ne_zero_all {N : ℕ} (hN : 0 < N) (x : ℝ)
    (hnode : ∀ k < N, Real.sin (1 / 2 * (x - node Real.pi N k)) ≠ 0) :
    sumRange (fun k => kern Real.sin Real.tan id Real.pi N k x * sgn k) N ≠ 0 := by
  rcases Nat.mod_two_eq_zero_or_one N with h | h
  · exact den_ne_zero_even h hN x hnode
  · exact den_ne_zero_odd h x hnode

/-- for every `N > 0` the denominator has the closed form `den · sin(N x / 2) = N` away from the nodes -/
theorem den_closed_form_all {N : ℕ} (hN : 0 < N) (x : ℝ)
    (hnode : ∀ k < N, Real.sin (1 / 2 * (x - node Real.pi N k)) ≠ 0) :
    sumRange (fun k => kern Real.sin Real.tan id Real.pi N k x * sgn k) N * Real.sin (N * x / 2) = N := by
  rcases Nat.mod_two_eq_zero_or_one N with h | h
  · exact den_closed_form_even h hN x hnode
  · exact den_closed_form h x hnode

theorem interp_exact_phase_all {N p : ℕ} (_hN : 0 < N) (hp : 2 * p < N) (a x : ℝ)
    (hnode : ∀ k < N, Real.sin (1 / 2 * (x - node Real.pi N k)) ≠ 0) :
    interp Real.sin Real.tan id Real.pi (fun k => Real.sin (a + p * node Real.pi N k)) N x =
      Real.sin (a + p * x) := by
  rcases Nat.mod_two_eq_zero_or_one N with h | h
  · exact interp_exact_phase_even h hp a x hnode
  · exact interp_exact_phase h hp a x hnode

theorem interp_exact_sin_all {N p : ℕ} (_hN : 0 < N) (hp : 2 * p < N) (x : ℝ)
    (hnode : ∀ k < N, Real.sin (1 / 2 * (x - node Real.pi N k)) ≠ 0) :
    interp Real.sin Real.tan id Real.pi (fun k => Real.sin (p * node Real.pi N k)) N x = Real.sin (p * x) := by
  rcases Nat.mod_two_eq_zero_or_one N with h | h
  · exact interp_exact_sin_even h hp x hnode
  · exact interp_exact_sin h hp x hnode

theorem interp_exact_cos_all {N p : ℕ} (_hN : 0 < N) (hp : 2 * p < N) (x : ℝ)
    (hnode : ∀ k < N, Real.sin (1 / 2 * (x - node Real.pi N k)) ≠ 0) :
    interp Real.sin Real.tan id Real.pi (fun k => Real.cos (p * node Real.pi N k)) N x = Real.cos (p * x) := by
  rcases Nat.mod_two_eq_zero_or_one N with h | h
  · exact interp_exact_cos_even h hp x hnode
  · exact interp_exact_cos h hp x hnode

/-! ### non-vacuity: `N = 4`, `x = 1` is not a node -/

theorem nonnode_four_one : ∀ k < 4, Real.sin (1 / 2 * ((1 : ℝ) - node Real.pi 4 k)) ≠ 0 := by
  have hpi := Real.pi_gt_three
  have hpos := Real.pi_pos
  intro k hk
  rw [node_eq]
  have hcases : k = 0 ∨ k = 1 ∨ k = 2 ∨ k = 3 := by omega
  rcases hcases with rfl | rfl | rfl | rfl
  · apply ne_of_gt
    apply Real.sin_pos_of_pos_of_lt_pi <;> (push_cast; linarith)
  · apply ne_of_lt
    apply Real.sin_neg_of_neg_of_neg_pi_lt <;> (push_cast; linarith)
  · apply ne_of_lt
    apply Real.sin_neg_of_neg_of_neg_pi_lt <;> (push_cast; linarith)
  · apply ne_of_lt
    apply Real.sin_neg_of_neg_of_neg_pi_lt <;> (push_cast; linarith)

example : interp Real.sin Real.tan id Real.pi (fun k => Real.sin ((1 : ℕ) * node Real.pi 4 k)) 4 1
    = Real.sin ((1 : ℕ) * 1) :=
  interp_exact_sin_even (N := 4) (p := 1) (by decide) (by decide) 1 nonnode_four_one

example : interp Real.sin Real.tan id Real.pi (fun k => Real.cos ((2 : ℕ) * node Real.pi 4 k)) 4 1
    = Real.cos ((2 : ℕ) * 1) :=
  interp_exact_nyquist_cos (N := 4) (t := 2) (by decide) (by decide) 1 nonnode_four_one

example : sumRange (fun k => kern Real.sin Real.tan id Real.pi 4 k 1 * sgn k) 4 * Real.sin ((4 : ℕ) * 1 / 2)
    = (4 : ℕ) :=
  den_closed_form_even (N := 4) (by decide) (by decide) 1 nonnode_four_one

end C20InterpEven

#print axioms C20InterpEven.den_closed_form_even
#print axioms C20InterpEven.den_ne_zero_even
#print axioms C20InterpEven.interp_const_even
#print axioms C20InterpEven.interp_exact_phase_even
#print axioms C20InterpEven.interp_exact_sin_even
#print axioms C20InterpEven.interp_exact_cos_even
#print axioms C20InterpEven.interp_nyquist_alt
#print axioms C20InterpEven.interp_exact_nyquist_cos
#print axioms C20InterpEven.interp_nyquist_sin
#print axioms C20InterpEven.den_ne_zero_all
#print axioms C20InterpEven.den_closed_form_all
#print axioms C20InterpEven.interp_exact_phase_all
#print axioms C20InterpEven.interp_exact_sin_all
#print axioms C20InterpEven.interp_exact_cos_all
#print axioms C20InterpEven.nonnode_four_one
