import QscProofs.C05Sigma
import Mathlib.Algebra.BigOperators.Fin
import Mathlib.Tactic.FieldSimp
import Mathlib.Tactic.FinCases
import Mathlib.Tactic.NormNum
/-!
# C06 / C08 (σ-equation clauses) and the non-constant weight for C05 / C07

Statements about the **generated** `Gen.Sigma.residual` (through `C02.residual`, `C02.residual_eq`) on the periodic
grid `Arr n = Fin (n+1) → ℝ`.

(A) **non-constant weight** – in pyQSC `d_d_varphi[j, :] = d_d_phi[j, :] / d_varphi_d_phi[j]`, and the weight
`w = d_varphi_d_phi` is a grid array.  Describing the configuration from a shifted origin shifts `w`, too, so the
operator of the shifted problem is a *different* linear map:

* `gridDw`                          : row `j` of the spectral matrix divided by `w j` (`= (gridOps …).D`).
* `gridDw_comm_shift`               : `gridDw nfp (shift k w) (shift k v) = shift k (gridDw nfp w v)`.
* `gridDw_anticomm_rev`             : `gridDw nfp (rev w) (rev v) = -rev (gridDw nfp w v)`.
* `residual_shift_covariant₂`       : covariance with two operators `D`, `D'` intertwined by the shift.
* `residual_shift_covariant_gridw`, `solution_shift_gridw` : for `gridDw nfp w`, `gridDw nfp (shift k w)`; no
  hypothesis left.
* `residual_reversal_covariant₂`, `residual_reversal_covariant_gridw`, `solution_reversal_gridw` : same for `rev`.
* `gridDw_not_comm_shift`           : with a non-constant weight the *same* operator does **not** commute with the
  shift (so the one-operator statement of `C05Sigma` cannot be used there).

(B) **field-period representation (C06)** – a configuration with `k · nfp'` field periods on `n+1` points per period,
declared instead with `nfp'` field periods on `m+1 = k (n+1)` points, every grid array replaced by its `k`-fold
periodic extension `ext`, `helicity ↦ k · helicity`, `nfp ↦ nfp / k`:

* `gridDw_rep`                      : `gridDw nfp' (ext w) (ext v) = ext (gridDw (k nfp') w v)` (from `EqvGrid.toep_rep`).
* `residual_repetition_covariant`   : residual of the extended problem at the extended state `=` extension of the residual.
* `residual_repetition_covariant_grid`, `solution_repetition`, `solution_repetition_grid`.
* `resForm`, `residual_eq_resForm`, `resForm_repetition` : the same on the carrier `Fin (k * N)` with `Fin.modNat`.

(C) **units (C08)** – `residual_scale_invariant`: length unit `λ ≠ 0`, field unit `c ≠ 0`.
-/
namespace C06Sigma
open C02 C05Sigma
variable {n : ℕ}

local notation "toepR" => Hand.SpecDiff.toep Real.sin Real.tan Real.pi
local notation "specD" => Hand.SpecDiff.D Real.sin Real.tan Real.pi

/-! ## (A) non-constant weight -/

/-- `d_d_varphi` of `EqvGrid.gridOps` on `n+1` points with the weight **array** `w = d_varphi_d_phi`:
row `i` of the spectral matrix on `[0, 2π/nfp)` divided by `w i` -/
noncomputable def gridDw (nfp : ℕ) (w : Arr n) : Arr n →ₗ[ℝ] Arr n where
  toFun := fun x i =>
    (∑ j : Fin (n+1), specD 0 (2 * Real.pi / (nfp : ℝ)) (n+1) i.val j.val * x j) / w i
  map_add' := fun x y => by
    funext i
    simp only [Pi.add_apply, mul_add, Finset.sum_add_distrib, add_div]
  map_smul' := fun a x => by
    funext i
    simp only [Pi.smul_apply, smul_eq_mul, RingHom.id_apply]
    rw [← mul_div_assoc, Finset.mul_sum]
    congr 1
    exact Finset.sum_congr rfl (fun j _ => by ring)

/-- `gridDw` **is** the field `D` of the concrete grid operations -/
theorem gridDw_eq_gridOps (nfp : ℕ) (w : Arr n) (fminF : (Fin (n+1) → ℝ) → ℝ) (aux : EqvGrid.Aux (n+1)) (x : Arr n) :
    gridDw nfp w x = (EqvGrid.gridOps (n+1) nfp w fminF aux).D x := rfl

/-- for a constant weight it is the operator of `C05Sigma` -/
theorem gridDw_const (nfp : ℕ) (w : ℝ) : gridDw (n := n) nfp (fun _ => w) = gridD nfp w := rfl

/-- `d_d_varphi = diag(1/w) · d_d_phi` -/
theorem gridDw_eq_div (nfp : ℕ) (w v : Arr n) (i : Fin (n+1)) : gridDw nfp w v i = gridD nfp 1 v i / w i := by
  show _ / w i = (_ / 1) / w i
  rw [div_one]

/-- the spectral `d_d_varphi` with the **shifted** weight, applied to the shifted array, is the shifted derivative -/
theorem gridDw_comm_shift (nfp : ℕ) (w : Arr n) (k : Fin (n+1)) (v : Arr n) :
    gridDw nfp (shift k w) (shift k v) = shift k (gridDw nfp w v) := by
  funext i
  show (∑ j : Fin (n+1), specD 0 (2 * Real.pi / (nfp : ℝ)) (n+1) i.val j.val * v (j + k)) / w (i + k)
      = (∑ j : Fin (n+1), specD 0 (2 * Real.pi / (nfp : ℝ)) (n+1) (i + k).val j.val * v j) / w (i + k)
  congr 1
  rw [← Equiv.sum_comp (Equiv.addRight k)
    (fun l => specD 0 (2 * Real.pi / (nfp : ℝ)) (n+1) (i + k).val l.val * v l)]
  refine Finset.sum_congr rfl (fun j _ => ?_)
  simp only [Equiv.coe_addRight, EqvGrid.D_eq_toep, EqvGrid.toep_shift]

/-- the spectral `d_d_varphi` with the **reversed** weight, applied to the reversed array, is minus the reversed
derivative -/
theorem gridDw_anticomm_rev (nfp : ℕ) (w v : Arr n) :
    gridDw nfp (rev w) (rev v) = -rev (gridDw nfp w v) := by
  funext i
  show (∑ j : Fin (n+1), specD 0 (2 * Real.pi / (nfp : ℝ)) (n+1) i.val j.val * v (-j)) / w (-i)
      = -((∑ j : Fin (n+1), specD 0 (2 * Real.pi / (nfp : ℝ)) (n+1) (-i).val j.val * v j) / w (-i))
  rw [← neg_div, ← Finset.sum_neg_distrib]
  congr 1
  rw [← Equiv.sum_comp (Equiv.neg (Fin (n+1)))
    (fun l => -(specD 0 (2 * Real.pi / (nfp : ℝ)) (n+1) (-i).val l.val * v l))]
  refine Finset.sum_congr rfl (fun j _ => ?_)
  simp only [Equiv.neg_apply, EqvGrid.D_eq_toep, EqvGrid.toep_neg]
  ring

/-- **shift covariance with two operators**: `D` is the operator of the original declaration, `D'` the one of the
declaration from the shifted origin; the only hypothesis is that the shift intertwines them -/
theorem residual_shift_covariant₂ (D D' : Arr n →ₗ[ℝ] Arr n) (base base' : Ops (Arr n)) (k : Fin (n+1))
    (hD : ∀ v, D' (shift k v) = shift k (D v)) (P : Par n) (x : Arr n) :
    residual D' base' (shiftPar k P x) (shiftState k P x) = shift k (residual D base P x) := by
  funext j
  rw [shift_apply, residual_eq, residual_eq, sig_shiftState, hD, rhs_shiftPar, shiftState_zero]
  simp [shiftPar, shift]

theorem solution_shift₂ (D D' : Arr n →ₗ[ℝ] Arr n) (base base' : Ops (Arr n)) (k : Fin (n+1))
    (hD : ∀ v, D' (shift k v) = shift k (D v)) (P : Par n) (x : Arr n)
    (h : residual D base P x = 0) :
    residual D' base' (shiftPar k P x) (shiftState k P x) = 0
      ∧ shiftState k P x 0 = x 0
      ∧ sig (shiftPar k P x).sigma0 (shiftState k P x) = shift k (sig P.sigma0 x) := by
  refine ⟨?_, shiftState_zero k P x, sig_shiftState k P x⟩
  rw [residual_shift_covariant₂ D D' base base' k hD, h]
  rfl

theorem solution_shift_iff₂ (D D' : Arr n →ₗ[ℝ] Arr n) (base base' : Ops (Arr n)) (k : Fin (n+1))
    (hD : ∀ v, D' (shift k v) = shift k (D v)) (P : Par n) (x : Arr n) :
    residual D' base' (shiftPar k P x) (shiftState k P x) = 0 ↔ residual D base P x = 0 := by
  rw [residual_shift_covariant₂ D D' base base' k hD]
  constructor
  · intro h
    funext j
    have := congrFun h (j - k)
    simpa [shift] using this
  · intro h; rw [h]; rfl

/-- shift covariance for the concrete spectral operator with an arbitrary weight array: the shifted declaration uses
the shifted weight; no hypothesis left -/
theorem residual_shift_covariant_gridw (nfp : ℕ) (w : Arr n) (base base' : Ops (Arr n)) (k : Fin (n+1)) (P : Par n)
    (x : Arr n) :
    residual (gridDw nfp (shift k w)) base' (shiftPar k P x) (shiftState k P x)
      = shift k (residual (gridDw nfp w) base P x) :=
  residual_shift_covariant₂ _ _ base base' k (gridDw_comm_shift nfp w k) P x

/-- a root of the discrete σ-equation gives, seen from the shifted origin, a root with the same `ι` -/
theorem solution_shift_gridw (nfp : ℕ) (w : Arr n) (base base' : Ops (Arr n)) (k : Fin (n+1)) (P : Par n) (x : Arr n)
    (h : residual (gridDw nfp w) base P x = 0) :
    residual (gridDw nfp (shift k w)) base' (shiftPar k P x) (shiftState k P x) = 0
      ∧ shiftState k P x 0 = x 0
      ∧ sig (shiftPar k P x).sigma0 (shiftState k P x) = shift k (sig P.sigma0 x) :=
  solution_shift₂ _ _ base base' k (gridDw_comm_shift nfp w k) P x h

theorem solution_shift_iff_gridw (nfp : ℕ) (w : Arr n) (base base' : Ops (Arr n)) (k : Fin (n+1)) (P : Par n)
    (x : Arr n) :
    residual (gridDw nfp (shift k w)) base' (shiftPar k P x) (shiftState k P x) = 0
      ↔ residual (gridDw nfp w) base P x = 0 :=
  solution_shift_iff₂ _ _ base base' k (gridDw_comm_shift nfp w k) P x

/-- **reversal covariance with two operators** -/
theorem residual_reversal_covariant₂ (D D' : Arr n →ₗ[ℝ] Arr n) (base base' : Ops (Arr n))
    (hD : ∀ v, D' (rev v) = -rev (D v)) (P : Par n) (x : Arr n) :
    residual D' base' (revPar P) (revState P x) = -rev (residual D base P x) := by
  funext j
  rw [Pi.neg_apply, rev_apply, residual_eq, residual_eq, sig_revState, hD, rhs_revPar]
  simp only [revState, revPar, rev, Function.update_self, Pi.neg_apply]
  ring

theorem solution_reversal₂ (D D' : Arr n →ₗ[ℝ] Arr n) (base base' : Ops (Arr n))
    (hD : ∀ v, D' (rev v) = -rev (D v)) (P : Par n) (x : Arr n) (h : residual D base P x = 0) :
    residual D' base' (revPar P) (revState P x) = 0 ∧ revState P x 0 = -x 0 := by
  refine ⟨?_, by simp [revState]⟩
  rw [residual_reversal_covariant₂ D D' base base' hD, h]
  funext j; simp [rev]

/-- reversal composed with mirror, two operators: `ι`, `helicity`, `I2` unchanged, residual ↦ `rev residual` -/
theorem residual_reversal_mirror_covariant₂ (D D' : Arr n →ₗ[ℝ] Arr n) (base base' : Ops (Arr n))
    (hD : ∀ v, D' (rev v) = -rev (D v)) (P : Par n) (x : Arr n) :
    residual D' base' (mirPar (revPar P)) (-revState P x) = rev (residual D base P x) := by
  rw [residual_mirror_covariant, residual_reversal_covariant₂ D D' base base' hD, neg_neg]

theorem residual_reversal_covariant_gridw (nfp : ℕ) (w : Arr n) (base base' : Ops (Arr n)) (P : Par n) (x : Arr n) :
    residual (gridDw nfp (rev w)) base' (revPar P) (revState P x) = -rev (residual (gridDw nfp w) base P x) :=
  residual_reversal_covariant₂ _ _ base base' (gridDw_anticomm_rev nfp w) P x

theorem solution_reversal_gridw (nfp : ℕ) (w : Arr n) (base base' : Ops (Arr n)) (P : Par n) (x : Arr n)
    (h : residual (gridDw nfp w) base P x = 0) :
    residual (gridDw nfp (rev w)) base' (revPar P) (revState P x) = 0 ∧ revState P x 0 = -x 0 :=
  solution_reversal₂ _ _ base base' (gridDw_anticomm_rev nfp w) P x h

theorem residual_reversal_mirror_covariant_gridw (nfp : ℕ) (w : Arr n) (base base' : Ops (Arr n)) (P : Par n)
    (x : Arr n) :
    residual (gridDw nfp (rev w)) base' (mirPar (revPar P)) (-revState P x) = rev (residual (gridDw nfp w) base P x) :=
  residual_reversal_mirror_covariant₂ _ _ base base' (gridDw_anticomm_rev nfp w) P x

/-! ## (B) field-period representation (C06) -/

/-- `k`-fold periodic extension of an array on `n+1` points to a grid of `m+1` points: `(ext v)_j = v_{j mod (n+1)}` -/
def ext (m : ℕ) (v : Arr n) : Arr m := fun j => v (Fin.ofNat (n+1) j.val)

@[simp] theorem ext_apply (m : ℕ) (v : Arr n) (j : Fin (m+1)) : ext m v j = v (Fin.ofNat (n+1) j.val) := rfl

theorem ext_zero (m : ℕ) (v : Arr n) : ext m v 0 = v 0 := rfl

/-- on `k (n+1)` points the extension is `v ∘ Fin.modNat` of `EqvGrid` -/
theorem ext_eq_modNat (N k : ℕ) [NeZero N] (v : Fin N → ℝ) (j : Fin (k * N)) :
    v (Fin.ofNat N j.val) = v j.modNat := rfl

/-- `EqvGrid.toep_rep` for a grid size `M` that is only propositionally `k N` -/
theorem toep_rep_ofNat (N M k : ℕ) [NeZero N] (hM : M = k * N) (hk : k ≠ 0) (x : Fin N → ℝ) (i : Fin M) :
    ∑ j : Fin M, toepR M i.val j.val * x (Fin.ofNat N j.val)
      = k * ∑ l : Fin N, toepR N (i.val % N) l.val * x l := by
  subst hM
  have : NeZero k := ⟨hk⟩
  exact EqvGrid.toep_rep N k x i

/-- **the operator identity of C06**: the spectral `d_d_varphi` on `m+1 = k (n+1)` points of `[0, 2π/nfp')` with the
extended weight, applied to a periodic extension, is the extension of the spectral `d_d_varphi` on `n+1` points of
`[0, 2π/(k nfp'))` -/
theorem gridDw_rep {m : ℕ} (k : ℕ) (hm : m + 1 = k * (n+1)) (nfp' : ℕ) (w v : Arr n) :
    gridDw (n := m) nfp' (ext m w) (ext m v) = ext m (gridDw (n := n) (k * nfp') w v) := by
  have hk : k ≠ 0 := by rintro rfl; simp at hm
  funext i
  show (∑ j : Fin (m+1), specD 0 (2 * Real.pi / (nfp' : ℝ)) (m+1) i.val j.val * v (Fin.ofNat (n+1) j.val))
        / w (Fin.ofNat (n+1) i.val)
      = (∑ l : Fin (n+1), specD 0 (2 * Real.pi / ((k * nfp' : ℕ) : ℝ)) (n+1) (Fin.ofNat (n+1) i.val).val l.val * v l)
        / w (Fin.ofNat (n+1) i.val)
  congr 1
  simp only [EqvGrid.D_eq_toep, mul_assoc, ← Finset.mul_sum]
  rw [toep_rep_ofNat (n+1) (m+1) k hm hk v i]
  have : (Fin.ofNat (n+1) i.val).val = i.val % (n+1) := rfl
  rw [this]
  push_cast
  ring

/-- the parameters of the declaration with `k` times fewer field periods: arrays extended, `helicity` (per period)
multiplied by `k`, `nfp` divided by `k`; `sigma0` unchanged (grid point 0 is common to both grids) -/
noncomputable def repPar (m k : ℕ) (P : Par n) : Par m :=
  { helicity := k * P.helicity, nfp := P.nfp / k, sigma0 := P.sigma0, spsi := P.spsi, I2 := P.I2, B0 := P.B0,
    G0 := P.G0, ees := ext m P.ees, torsion := ext m P.torsion }

/-- the extended state: slot 0 keeps `ι`, the other slots carry the periodic extension of `σ` -/
def repState (m : ℕ) (P : Par n) (x : Arr n) : Arr m :=
  Function.update (ext m (sig P.sigma0 x)) 0 (x 0)

theorem repState_zero (m : ℕ) (P : Par n) (x : Arr n) : repState m P x 0 = x 0 := by
  simp [repState]

theorem repPar_nfp (m k : ℕ) (hk : k ≠ 0) (P : Par n) (nfp' : ℝ) (h : P.nfp = k * nfp') :
    (repPar m k P).nfp = nfp' := by
  have : (k : ℝ) ≠ 0 := Nat.cast_ne_zero.mpr hk
  simp only [repPar, h]
  field_simp

/-- `helicity · nfp` is the same product in both declarations -/
theorem repPar_helicity_nfp (m k : ℕ) (hk : k ≠ 0) (P : Par n) :
    (repPar m k P).helicity * (repPar m k P).nfp = P.helicity * P.nfp := by
  have : (k : ℝ) ≠ 0 := Nat.cast_ne_zero.mpr hk
  simp only [repPar]
  field_simp

/-- the σ-array of the extended problem at the extended state is the extension of the σ-array -/
theorem sig_repState (m k : ℕ) (P : Par n) (x : Arr n) :
    sig (repPar m k P).sigma0 (repState m P x) = ext m (sig P.sigma0 x) := by
  funext j
  by_cases hj : j = 0
  · subst hj
    rw [ext_zero]
    simp [sig, repPar]
  · simp [sig, repState, Function.update_of_ne hj]

theorem rhs_repPar (m k : ℕ) (P : Par n) : rhs (repPar m k P) = ext m (rhs P) := by
  funext j; simp [rhs, repPar, ext]

/-- **repetition covariance of the discrete σ-equation**: `D` the operator on `n+1` points, `D'` the one on `m+1`
points, intertwined by the periodic extension; for every state `x`, at every grid index of the large grid -/
theorem residual_repetition_covariant {m : ℕ} (k : ℕ) (hk : k ≠ 0) (D : Arr n →ₗ[ℝ] Arr n) (D' : Arr m →ₗ[ℝ] Arr m)
    (base : Ops (Arr n)) (base' : Ops (Arr m)) (hD : ∀ v, D' (ext m v) = ext m (D v)) (P : Par n) (x : Arr n) :
    residual D' base' (repPar m k P) (repState m P x) = ext m (residual D base P x) := by
  funext j
  rw [ext_apply, residual_eq, residual_eq, sig_repState, hD, rhs_repPar, repState_zero,
    repPar_helicity_nfp m k hk P]
  simp [repPar, ext]

/-- a solution on `n+1` points gives a solution of the extended problem, with the same `ι` and the extended `σ` -/
theorem solution_repetition {m : ℕ} (k : ℕ) (hk : k ≠ 0) (D : Arr n →ₗ[ℝ] Arr n) (D' : Arr m →ₗ[ℝ] Arr m)
    (base : Ops (Arr n)) (base' : Ops (Arr m)) (hD : ∀ v, D' (ext m v) = ext m (D v)) (P : Par n) (x : Arr n)
    (h : residual D base P x = 0) :
    residual D' base' (repPar m k P) (repState m P x) = 0
      ∧ repState m P x 0 = x 0
      ∧ sig (repPar m k P).sigma0 (repState m P x) = ext m (sig P.sigma0 x) := by
  refine ⟨?_, repState_zero m P x, sig_repState m k P x⟩
  rw [residual_repetition_covariant k hk D D' base base' hD, h]
  rfl

/-- converse: when the large grid really covers the small one (`n ≤ m`), a root of the extended problem of this form
comes from a root -/
theorem solution_repetition_iff {m : ℕ} (k : ℕ) (hk : k ≠ 0) (hnm : n ≤ m) (D : Arr n →ₗ[ℝ] Arr n)
    (D' : Arr m →ₗ[ℝ] Arr m) (base : Ops (Arr n)) (base' : Ops (Arr m)) (hD : ∀ v, D' (ext m v) = ext m (D v))
    (P : Par n) (x : Arr n) :
    residual D' base' (repPar m k P) (repState m P x) = 0 ↔ residual D base P x = 0 := by
  rw [residual_repetition_covariant k hk D D' base base' hD]
  constructor
  · intro h
    funext l
    have := congrFun h ⟨l.val, by have := l.isLt; omega⟩
    have e : Fin.ofNat (n+1) l.val = l := Fin.ext (Nat.mod_eq_of_lt l.isLt)
    simpa [ext, e] using this
  · intro h; rw [h]; rfl

/-- repetition covariance for the concrete spectral operators: `k nfp'` field periods on `n+1` points with weight `w`
versus `nfp'` field periods on `m+1 = k (n+1)` points with the extended weight; no hypothesis on the operators left -/
theorem residual_repetition_covariant_grid {m : ℕ} (k : ℕ) (hm : m + 1 = k * (n+1)) (nfp' : ℕ) (w : Arr n)
    (base : Ops (Arr n)) (base' : Ops (Arr m)) (P : Par n) (x : Arr n) :
    residual (gridDw nfp' (ext m w)) base' (repPar m k P) (repState m P x)
      = ext m (residual (gridDw (k * nfp') w) base P x) :=
  residual_repetition_covariant k (by rintro rfl; simp at hm) _ _ base base' (gridDw_rep k hm nfp' w) P x

theorem solution_repetition_grid {m : ℕ} (k : ℕ) (hm : m + 1 = k * (n+1)) (nfp' : ℕ) (w : Arr n)
    (base : Ops (Arr n)) (base' : Ops (Arr m)) (P : Par n) (x : Arr n)
    (h : residual (gridDw (k * nfp') w) base P x = 0) :
    residual (gridDw nfp' (ext m w)) base' (repPar m k P) (repState m P x) = 0
      ∧ repState m P x 0 = x 0
      ∧ sig (repPar m k P).sigma0 (repState m P x) = ext m (sig P.sigma0 x) :=
  solution_repetition k (by rintro rfl; simp at hm) _ _ base base' (gridDw_rep k hm nfp' w) P x h

theorem solution_repetition_iff_grid {m : ℕ} (k : ℕ) (hm : m + 1 = k * (n+1)) (nfp' : ℕ) (w : Arr n)
    (base : Ops (Arr n)) (base' : Ops (Arr m)) (P : Par n) (x : Arr n) :
    residual (gridDw nfp' (ext m w)) base' (repPar m k P) (repState m P x) = 0
      ↔ residual (gridDw (k * nfp') w) base P x = 0 := by
  have hk : k ≠ 0 := by rintro rfl; simp at hm
  have hnm : n ≤ m := by
    have : 1 ≤ k := Nat.one_le_iff_ne_zero.mpr hk
    nlinarith
  exact solution_repetition_iff k hk hnm _ _ base base' (gridDw_rep k hm nfp' w) P x

/-! ### the same statement on the carrier `Fin (k * N) → ℝ` of `EqvGrid` (entrywise form) -/

/-- entrywise form of the σ-residual on an arbitrary index type: `Dσ + (ι + N)(e² + 1 + σ²) − 2e(−spsi τ + I2/B0)G0/B0` -/
noncomputable def resForm {ι : Type} (Dσ : ι → ℝ) (iotaN : ℝ) (e σ τ : ι → ℝ) (spsi I2 B0 G0 : ℝ) : ι → ℝ :=
  fun j => Dσ j + iotaN * (e j * e j + 1 + σ j * σ j) - 2 * e j * (-spsi * τ j + I2 / B0) * G0 / B0

/-- the generated residual **is** `resForm` -/
theorem residual_eq_resForm (D : Arr n →ₗ[ℝ] Arr n) (base : Ops (Arr n)) (P : Par n) (x : Arr n) :
    residual D base P x
      = resForm (D (sig P.sigma0 x)) (x 0 + P.helicity * P.nfp) P.ees (sig P.sigma0 x) P.torsion
          P.spsi P.I2 P.B0 P.G0 := by
  funext j
  rw [residual_eq]
  rfl

/-- `resForm` is natural in the index type -/
theorem resForm_comp {ι ι' : Type} (π : ι' → ι) (Dσ : ι → ℝ) (iotaN : ℝ) (e σ τ : ι → ℝ) (spsi I2 B0 G0 : ℝ) :
    resForm (Dσ ∘ π) iotaN (e ∘ π) (σ ∘ π) (τ ∘ π) spsi I2 B0 G0 = resForm Dσ iotaN e σ τ spsi I2 B0 G0 ∘ π := rfl

/-- the concrete `d_d_varphi` on `N` points of `[0, 2π/nfp)` with weight array `w` (`= (EqvGrid.gridOps N nfp w …).D`) -/
noncomputable def specDw (N nfp : ℕ) (w x : Fin N → ℝ) : Fin N → ℝ :=
  fun i => (∑ j : Fin N, specD 0 (2 * Real.pi / (nfp : ℝ)) N i.val j.val * x j) / w i

theorem specDw_eq_gridOps (N : ℕ) [NeZero N] (nfp : ℕ) (w : Fin N → ℝ) (fminF : (Fin N → ℝ) → ℝ) (aux : EqvGrid.Aux N)
    (x : Fin N → ℝ) : specDw N nfp w x = (EqvGrid.gridOps N nfp w fminF aux).D x := rfl

theorem gridDw_eq_specDw (nfp : ℕ) (w x : Arr n) : gridDw nfp w x = specDw (n+1) nfp w x := rfl

theorem specDw_rep (N k : ℕ) [NeZero N] [NeZero k] (nfp' : ℕ) (w x : Fin N → ℝ) :
    specDw (k * N) nfp' (w ∘ Fin.modNat) (x ∘ Fin.modNat) = specDw N (k * nfp') w x ∘ Fin.modNat := by
  funext i
  simp only [specDw, Function.comp_apply]
  congr 1
  simp only [EqvGrid.D_eq_toep, mul_assoc, ← Finset.mul_sum]
  rw [EqvGrid.toep_rep N k x i, Fin.coe_modNat]
  push_cast
  ring

/-- **C06 on `Fin (k N)`**: the entrywise residual of the `nfp'`-declaration on `k N` points, built from the periodic
extensions, is the periodic extension of the entrywise residual of the `k nfp'`-declaration on `N` points -/
theorem resForm_repetition (N k : ℕ) [NeZero N] [NeZero k] (nfp' : ℕ) (w : Fin N → ℝ) (iotaN : ℝ)
    (e σ τ : Fin N → ℝ) (spsi I2 B0 G0 : ℝ) :
    resForm (specDw (k * N) nfp' (w ∘ Fin.modNat) (σ ∘ Fin.modNat)) iotaN (e ∘ Fin.modNat) (σ ∘ Fin.modNat)
        (τ ∘ Fin.modNat) spsi I2 B0 G0
      = resForm (specDw N (k * nfp') w σ) iotaN e σ τ spsi I2 B0 G0 ∘ Fin.modNat := by
  rw [specDw_rep, resForm_comp]

/-- a root on `N` points gives a root on `k N` points (same `iotaN = ι + helicity·nfp`, extended arrays) -/
theorem resForm_solution_repetition (N k : ℕ) [NeZero N] [NeZero k] (nfp' : ℕ) (w : Fin N → ℝ) (iotaN : ℝ)
    (e σ τ : Fin N → ℝ) (spsi I2 B0 G0 : ℝ)
    (h : resForm (specDw N (k * nfp') w σ) iotaN e σ τ spsi I2 B0 G0 = 0) :
    resForm (specDw (k * N) nfp' (w ∘ Fin.modNat) (σ ∘ Fin.modNat)) iotaN (e ∘ Fin.modNat) (σ ∘ Fin.modNat)
        (τ ∘ Fin.modNat) spsi I2 B0 G0 = 0 := by
  rw [resForm_repetition, h]
  rfl

/-! ## (C) units (C08) -/

/-- change of the length unit by `l` and of the field unit by `c`: `torsion ↦ torsion / l`, `G0 ↦ l c G0`,
`B0 ↦ c B0`, `I2 ↦ c I2 / l`; `ees = etabar²/κ²`, `sigma0`, `helicity`, `nfp`, `spsi` are dimensionless -/
noncomputable def scalePar (l c : ℝ) (P : Par n) : Par n :=
  { P with torsion := fun j => P.torsion j / l, G0 := l * c * P.G0, B0 := c * P.B0, I2 := c * P.I2 / l }

/-- the inhomogeneous term `2·ees·(−spsi·τ + I2/B0)·G0/B0` is dimensionless -/
theorem rhs_scalePar (l c : ℝ) (hl : l ≠ 0) (hc : c ≠ 0) (P : Par n) : rhs (scalePar l c P) = rhs P := by
  funext j
  simp only [rhs, scalePar]
  by_cases hB : P.B0 = 0
  · simp [hB]
  · field_simp

/-- **the discrete σ-equation does not depend on the units**: for every state `x`, every linear `D` (`d/dvarphi` is
dimensionless), every grid size -/
theorem residual_scale_invariant (D : Arr n →ₗ[ℝ] Arr n) (base : Ops (Arr n)) (l c : ℝ) (hl : l ≠ 0) (hc : c ≠ 0)
    (P : Par n) (x : Arr n) :
    residual D base (scalePar l c P) x = residual D base P x := by
  funext j
  rw [residual_eq, residual_eq, rhs_scalePar l c hl hc]
  rfl

/-- hence the roots (`ι` in slot 0, `σ` in the others) are the same in all units -/
theorem solution_scale_iff (D : Arr n →ₗ[ℝ] Arr n) (base : Ops (Arr n)) (l c : ℝ) (hl : l ≠ 0) (hc : c ≠ 0)
    (P : Par n) (x : Arr n) :
    residual D base (scalePar l c P) x = 0 ↔ residual D base P x = 0 := by
  rw [residual_scale_invariant D base l c hl hc]

/-! ## non-vacuity -/

section examples

/-- the first sine mode on three points is differentiated exactly by the spectral matrix (as in `C05Sigma`) -/
theorem exists_unit_derivative : ∃ v : Arr 2, gridD (n := 2) 1 1 v 0 = 1 := by
  refine ⟨fun k => Real.sin (((1:ℕ):ℝ) * (2 * Real.pi / (2 * Real.pi / ((1:ℕ):ℝ) - 0))
      * ((0 + (k.val:ℝ) * (2 * Real.pi / ((1:ℕ):ℝ) - 0) / ((2+1:ℕ):ℝ)) - 0)), ?_⟩
  have h := C20Spec.D_exact_sin_explicit 0 (2 * Real.pi / ((1:ℕ):ℝ)) (2+1) 1 0
    (by have := Real.pi_pos; norm_num) (by norm_num) (by norm_num)
  show (∑ j : Fin (2+1), Hand.SpecDiff.D Real.sin Real.tan Real.pi 0 (2 * Real.pi / ((1:ℕ) : ℝ)) (2+1)
    (0 : Fin 3).val j.val * _) / 1 = 1
  rw [div_one]
  refine (Fin.sum_univ_eq_sum_range (fun k => Hand.SpecDiff.D Real.sin Real.tan Real.pi 0 (2 * Real.pi / ((1:ℕ) : ℝ))
      (2+1) 0 k * Real.sin (((1:ℕ):ℝ) * (2 * Real.pi / (2 * Real.pi / ((1:ℕ):ℝ) - 0))
      * ((0 + (k:ℝ) * (2 * Real.pi / ((1:ℕ):ℝ) - 0) / ((2+1:ℕ):ℝ)) - 0))) (2+1)).trans (h.trans ?_)
  have := Real.pi_pos
  simp

/-- **why two operators are needed**: with the non-constant weight `w = (1, 2, 2)` the operator `gridDw nfp w` itself
does *not* commute with the shift by one grid point -/
theorem gridDw_not_comm_shift :
    ∃ (w v : Arr 2), gridDw (n := 2) 1 w (shift 1 v) ≠ shift 1 (gridDw 1 w v) := by
  obtain ⟨s, hs⟩ := exists_unit_derivative
  refine ⟨![1, 2, 2], shift 2 s, fun h => ?_⟩
  have h0 := congrFun h 0
  have e3 : (1 : Fin 3) + 2 = 0 := rfl
  have e1 : gridDw (n := 2) 1 ![1, 2, 2] (shift 1 (shift 2 s)) 0 = 1 := by
    rw [shift_shift, e3, shift_zero, gridDw_eq_div, hs]
    simp
  have e2 : shift 1 (gridDw (n := 2) 1 ![1, 2, 2] (shift 2 s)) 0 = 1 / 2 := by
    rw [shift_apply, gridDw_eq_div, gridD_comm_shift, shift_apply]
    have e4 : (0 : Fin 3) + 1 + 2 = 0 := rfl
    rw [e4, hs]
    simp
  rw [e1, e2] at h0
  norm_num at h0

/-- … whereas the two-operator statement holds for that weight (instance of `gridDw_comm_shift`) -/
example (v : Arr 2) : gridDw (n := 2) 1 ![2, 2, 1] (shift 1 v) = shift 1 (gridDw 1 ![1, 2, 2] v) := by
  have h := gridDw_comm_shift (n := 2) 1 ![1, 2, 2] 1 v
  have e : shift 1 (![1, 2, 2] : Arr 2) = ![2, 2, 1] := by
    funext j; fin_cases j <;> rfl
  rwa [e] at h

/-- the operator with a non-constant weight is not the zero map -/
example : ∃ v : Arr 2, gridDw (n := 2) 1 ![1, 2, 2] v 0 = 1 := by
  obtain ⟨s, hs⟩ := exists_unit_derivative
  exact ⟨s, by rw [gridDw_eq_div, hs]; simp⟩

/-- `Ops` records on two and on four grid points -/
noncomputable def base1 : Ops (Arr 1) :=
  EqvGrid.gridOps 2 2 (fun _ => 1) (fun _ => 0)
    { atan2 := fun x _ => x, elemAt := fun _ x => x, setAt := fun _ x _ => x, spline := fun _ x => x }
noncomputable def base3 : Ops (Arr 3) :=
  EqvGrid.gridOps 4 1 (fun _ => 1) (fun _ => 0)
    { atan2 := fun x _ => x, elemAt := fun _ x => x, setAt := fun _ x _ => x, spline := fun _ x => x }

/-- two field periods, two points per period, a non-constant profile -/
noncomputable def P1 : Par 1 :=
  { helicity := 1, nfp := 2, sigma0 := 5, spsi := 1, I2 := 0, B0 := 1, G0 := 1, ees := ![1, 2], torsion := ![0, 0] }
def x1 : Arr 1 := ![-2, 7]

/-- a genuine root on the small grid (`D = 0`, `ι + N = 0`, `rhs = 0`, `σ = (5, 7)` non-constant) -/
theorem root1 : residual (0 : Arr 1 →ₗ[ℝ] Arr 1) base1 P1 x1 = 0 := by
  funext j
  rw [residual_eq]
  fin_cases j <;> simp [P1, x1, rhs]

/-- the extended declaration: one field period, four points, `helicity = 2`, `nfp = 1`, arrays repeated twice -/
example : repState 3 P1 x1 = ![-2, 7, 5, 7] ∧ (repPar 3 2 P1).ees = ![1, 2, 1, 2]
    ∧ (repPar 3 2 P1).helicity = 2 ∧ (repPar 3 2 P1).nfp = 1 ∧ (repPar 3 2 P1).sigma0 = 5 := by
  refine ⟨?_, ?_, ?_, ?_, ?_⟩
  · funext j; fin_cases j <;> simp [repState, ext, sig, P1, x1, Fin.ofNat]
  · funext j; fin_cases j <;> simp [repPar, ext, P1, Fin.ofNat]
  · simp [repPar, P1]
  · simp [repPar, P1]
  · simp [repPar, P1]

/-- the conclusion of `solution_repetition` for that root -/
example : residual (0 : Arr 3 →ₗ[ℝ] Arr 3) base3 (repPar 3 2 P1) (repState 3 P1 x1) = 0 :=
  (solution_repetition 2 (by norm_num) 0 0 base1 base3 (fun _ => rfl) P1 x1 root1).1

/-- the covariance is not about zero residuals only: a non-zero, non-constant residual and its extension -/
example : residual (0 : Arr 1 →ₗ[ℝ] Arr 1) base1 P1 ![0, 1] = ![2 * (1 + 1 + 25), 2 * (4 + 1 + 1)]
    ∧ residual (0 : Arr 3 →ₗ[ℝ] Arr 3) base3 (repPar 3 2 P1) (repState 3 P1 ![0, 1])
        = ![2 * (1 + 1 + 25), 2 * (4 + 1 + 1), 2 * (1 + 1 + 25), 2 * (4 + 1 + 1)] := by
  have h1 : residual (0 : Arr 1 →ₗ[ℝ] Arr 1) base1 P1 ![0, 1] = ![2 * (1 + 1 + 25), 2 * (4 + 1 + 1)] := by
    funext j
    rw [residual_eq]
    fin_cases j <;> simp [P1, rhs, sig] <;> norm_num
  refine ⟨h1, ?_⟩
  rw [residual_repetition_covariant 2 (by norm_num) 0 0 base1 base3 (fun _ => rfl), h1]
  funext j; fin_cases j <;> simp [ext, Fin.ofNat]

/-- the concrete statement for `2·1` field periods on 2 points versus `1` field period on `4 = 2·2` points, with a
non-constant weight: the size hypothesis `3 + 1 = 2 * (1 + 1)` holds by computation -/
example (x : Arr 1) :
    residual (gridDw 1 (ext 3 (![1, 3] : Arr 1))) base3 (repPar 3 2 P1) (repState 3 P1 x)
      = ext 3 (residual (gridDw (2 * 1) ![1, 3]) base1 P1 x) :=
  residual_repetition_covariant_grid 2 rfl 1 ![1, 3] base1 base3 P1 x

/-- the same on the carrier `Fin (2 * 2)` of `EqvGrid` -/
example (w σ : Fin 2 → ℝ) (iotaN : ℝ) :
    resForm (specDw (2 * 2) 1 (w ∘ Fin.modNat) (σ ∘ Fin.modNat)) iotaN (![1, 2] ∘ Fin.modNat) (σ ∘ Fin.modNat)
        (![0, 0] ∘ Fin.modNat) 1 0 1 1
      = resForm (specDw 2 (2 * 1) w σ) iotaN ![1, 2] σ ![0, 0] 1 0 1 1 ∘ Fin.modNat :=
  resForm_repetition 2 2 1 w iotaN _ σ _ 1 0 1 1

/-- units: a parameter set with non-zero torsion, current and a non-constant profile; metres → centimetres
(`l = 100`), tesla → gauss (`c = 10⁴`) changes the record but not the residual -/
noncomputable def P1u : Par 1 :=
  { helicity := 1, nfp := 2, sigma0 := 5, spsi := 1, I2 := 3, B0 := 2, G0 := 7, ees := ![1, 2], torsion := ![4, 6] }

example : (scalePar 100 10000 P1u).B0 = 20000 ∧ (scalePar 100 10000 P1u).G0 = 7000000
    ∧ (scalePar 100 10000 P1u).I2 = 300 ∧ (scalePar 100 10000 P1u).torsion 0 = 4 / 100 := by
  refine ⟨?_, ?_, ?_, ?_⟩ <;> simp [scalePar, P1u] <;> norm_num

example (x : Arr 1) :
    residual (gridDw 2 ![1, 3]) base1 (scalePar 100 10000 P1u) x = residual (gridDw 2 ![1, 3]) base1 P1u x :=
  residual_scale_invariant _ base1 100 10000 (by norm_num) (by norm_num) P1u x

/-- the invariant term is not trivially zero for `P1u`: `rhs_0 = 2·1·(−4 + 3/2)·7/2` -/
example : rhs P1u 0 = -35 / 2 := by
  simp [rhs, P1u]; norm_num

end examples

#print axioms gridDw_comm_shift
#print axioms gridDw_anticomm_rev
#print axioms residual_shift_covariant₂
#print axioms solution_shift₂
#print axioms solution_shift_iff₂
#print axioms residual_shift_covariant_gridw
#print axioms solution_shift_gridw
#print axioms solution_shift_iff_gridw
#print axioms residual_reversal_covariant₂
#print axioms solution_reversal₂
#print axioms residual_reversal_mirror_covariant₂
#print axioms residual_reversal_covariant_gridw
#print axioms solution_reversal_gridw
#print axioms residual_reversal_mirror_covariant_gridw
#print axioms gridDw_not_comm_shift
#print axioms toep_rep_ofNat
#print axioms gridDw_rep
#print axioms residual_repetition_covariant
#print axioms solution_repetition
#print axioms solution_repetition_iff
#print axioms residual_repetition_covariant_grid
#print axioms solution_repetition_grid
#print axioms solution_repetition_iff_grid
#print axioms residual_eq_resForm
#print axioms specDw_rep
#print axioms resForm_repetition
#print axioms resForm_solution_repetition
#print axioms rhs_scalePar
#print axioms residual_scale_invariant
#print axioms solution_scale_iff
end C06Sigma
