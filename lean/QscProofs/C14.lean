import QscModel.Gen.F2C1
import QscModel.Gen.F2CRes
import QscModel.Gen.ToRZ
import QscProofs.Tactics
import Mathlib.Tactic.Ring
import Mathlib.Tactic.Linarith
import Mathlib.Analysis.SpecialFunctions.Complex.Arg
/-!
# C14 (point map) – `Frenet_to_cylindrical_1_point`, its residual function, and `to_RZ`

All statements are about the **generated** definitions `Gen.F2C1.*`, `Gen.F2CRes.*`, `Gen.ToRZ.*`.

* `one_point_is_position_r1/_r2` : `total_x, total_y, total_z` are the Cartesian components of
  `r₀ + X n + Y b (+ Z t)`, where `r₀ = (R0 cos φ0, R0 sin φ0, z0)` and the Cartesian components of `n, b, t` are
  obtained from the cylindrical ones by the rotation by `φ0` (`cartX`, `cartY`); `total_R = sqrt(total_x² + total_y²)`;
  the Z-term is present only for order ≠ r1 (`_r2` is the branch `order != 'r1'`).  Pure algebra, any commutative ring
  in which `hcs : ∀ x, cos x ^ 2 + sin x ^ 2 = 1` (true of the real functions; needed only for the `total_R` clause when
  the source takes the length of the same vector in the rotated basis `(e_R, e_φ)`; the proofs do not depend on which
  of the two spellings the source uses).
* `one_point_polar_r1/_r2` : at `ℝ`, with `o.sqrt = Real.sqrt`, `o.cos = Real.cos`, `o.sin = Real.sin`, and assuming
  that `total_phi` is *a* polar angle of `(total_x, total_y)` (hypothesis `hpolar`; this is ALL that is assumed of
  `atan2`): `total_R cos(total_phi) = total_x`, `total_R sin(total_phi) = total_y`.
* `one_point_polar_arg_r1/_r2` : the same with `hpolar` discharged from `o.atan2 y x = Complex.arg ⟨x, y⟩`
  (the real-number semantics of `np.arctan2`: principal value in `(-π, π]`, `arctan2(0,0) = 0`).
* `residual_zero_means_target_r1/_r2` : `residual = 0 ↔ atan2(total_y, total_x) = phi_target`, and
  `residual = total_phi − phi_target` with `total_phi` that of `Gen.F2C1`.  The generated `residual` is the branch
  of the Python function in which NO ±2π correction is applied (`-π ≤ residual ≤ π`).  `pyWrap` is the full
  Python post-processing (the two sequential `if`s); `pyWrap_eq_self` says it is the identity on that branch and
  `pyWrap_zero_iff` characterises the zero set of the full function (`residual ∈ {0, 2π, −2π}`).
* `shape_at_theta_r1/_r2/_r3` : `X_at_this_theta`, `Y_at_this_theta`, `Z_at_this_theta` are the truncated
  near-axis series in `r` with the `_untwisted` coefficients.
* `toRZ_is_one_point_r1/_r2/_r3` : the values returned by `to_RZ` are those of `Frenet_to_cylindrical_1_point`
  at the same `phi0` for the same interpolants (`o.spline nm`), order by order (r3 uses the `order != 'r1'` branch).
* `toRZ_position_r1/_r3` : if the interpolants `X_spline, Y_spline, Z_spline` reproduce the shapes at `phi0`, then
  `to_RZ`'s `(R, Z)` are those of the point `r₀ + X(θ) n + Y(θ) b + Z(θ) t`.
-/
namespace C14
set_option maxHeartbeats 1000000
-- the proofs carry fallbacks for re-spellings of the source; on a given tree some of them are not executed
set_option linter.unnecessarySeqFocus false
set_option linter.unusedTactic false
set_option linter.unreachableTactic false
set_option linter.unusedVariables false

section Algebra
variable {K : Type} [CommRing K]

/-- Cartesian x-component of a vector with cylindrical components `(vR, vphi, ·)` at a toroidal angle with
cosine `c` and sine `s` (rotation by φ0 about the Z axis) -/
def cartX (c s vR vphi : K) : K := vR * c - vphi * s
/-- Cartesian y-component, same rotation -/
def cartY (c s vR vphi : K) : K := vR * s + vphi * c

/-- order r1: `total_{x,y,z}` are the Cartesian components of `r₀ + X n + Y b`; `total_R` is the cylindrical radius -/
theorem one_point_is_position_r1 (o : Ops K) (i : Gen.F2C1.In K)
    (hcs : ∀ x, o.cos x ^ 2 + o.sin x ^ 2 = 1) :
    let S := fun nm => o.spline nm i.phi0
    let c := o.cos i.phi0
    let s := o.sin i.phi0
    Gen.F2C1.total_x_r1 o i = S "R0_func" * c + S "X_spline" * cartX c s (S "normal_R_spline") (S "normal_phi_spline")
        + S "Y_spline" * cartX c s (S "binormal_R_spline") (S "binormal_phi_spline") ∧
    Gen.F2C1.total_y_r1 o i = S "R0_func" * s + S "X_spline" * cartY c s (S "normal_R_spline") (S "normal_phi_spline")
        + S "Y_spline" * cartY c s (S "binormal_R_spline") (S "binormal_phi_spline") ∧
    Gen.F2C1.total_z_r1 o i = S "Z0_func" + S "X_spline" * S "normal_z_spline" + S "Y_spline" * S "binormal_z_spline" ∧
    Gen.F2C1.total_R_r1 o i = o.sqrt (Gen.F2C1.total_x_r1 o i * Gen.F2C1.total_x_r1 o i
        + Gen.F2C1.total_y_r1 o i * Gen.F2C1.total_y_r1 o i) ∧
    Gen.F2C1.total_phi_r1 o i = o.atan2 (Gen.F2C1.total_y_r1 o i) (Gen.F2C1.total_x_r1 o i) := by
  intro S c s
  refine ⟨?_, ?_, ?_, ?_, ?_⟩
  · qsc_rfl [S, c, s, cartX, cartY]
  · qsc_rfl [S, c, s, cartX, cartY]
  · qsc_rfl [S, c, s, cartX, cartY]
  · -- the radicand is `x² + y²` up to ring normalisation, or the squared length `eR² + eφ²` of the same vector in
    -- the rotated basis (equal through `cos² + sin² = 1`)
    first
      | rfl
      | (simp only [qsc_gen] <;> congr 1 <;> first
          | ring1
          | linear_combination
              (-((S "R0_func" + S "X_spline" * S "normal_R_spline" + S "Y_spline" * S "binormal_R_spline") ^ 2
                + (S "X_spline" * S "normal_phi_spline" + S "Y_spline" * S "binormal_phi_spline") ^ 2)) * hcs i.phi0)
  · qsc_rfl

/-- order ≠ r1: `total_{x,y,z}` are the Cartesian components of `r₀ + X n + Y b + Z t` -/
theorem one_point_is_position_r2 (o : Ops K) (i : Gen.F2C1.In K)
    (hcs : ∀ x, o.cos x ^ 2 + o.sin x ^ 2 = 1) :
    let S := fun nm => o.spline nm i.phi0
    let c := o.cos i.phi0
    let s := o.sin i.phi0
    Gen.F2C1.total_x_r2 o i = S "R0_func" * c + S "X_spline" * cartX c s (S "normal_R_spline") (S "normal_phi_spline")
        + S "Y_spline" * cartX c s (S "binormal_R_spline") (S "binormal_phi_spline")
        + S "Z_spline" * cartX c s (S "tangent_R_spline") (S "tangent_phi_spline") ∧
    Gen.F2C1.total_y_r2 o i = S "R0_func" * s + S "X_spline" * cartY c s (S "normal_R_spline") (S "normal_phi_spline")
        + S "Y_spline" * cartY c s (S "binormal_R_spline") (S "binormal_phi_spline")
        + S "Z_spline" * cartY c s (S "tangent_R_spline") (S "tangent_phi_spline") ∧
    Gen.F2C1.total_z_r2 o i = S "Z0_func" + S "X_spline" * S "normal_z_spline" + S "Y_spline" * S "binormal_z_spline"
        + S "Z_spline" * S "tangent_z_spline" ∧
    Gen.F2C1.total_R_r2 o i = o.sqrt (Gen.F2C1.total_x_r2 o i * Gen.F2C1.total_x_r2 o i
        + Gen.F2C1.total_y_r2 o i * Gen.F2C1.total_y_r2 o i) ∧
    Gen.F2C1.total_phi_r2 o i = o.atan2 (Gen.F2C1.total_y_r2 o i) (Gen.F2C1.total_x_r2 o i) := by
  intro S c s
  refine ⟨?_, ?_, ?_, ?_, ?_⟩
  · qsc_rfl [S, c, s, cartX, cartY]
  · qsc_rfl [S, c, s, cartX, cartY]
  · qsc_rfl [S, c, s, cartX, cartY]
  · first
      | rfl
      | (simp only [qsc_gen] <;> congr 1 <;> first
          | ring1
          | linear_combination
              (-((S "R0_func" + S "X_spline" * S "normal_R_spline" + S "Y_spline" * S "binormal_R_spline"
                    + S "Z_spline" * S "tangent_R_spline") ^ 2
                + (S "X_spline" * S "normal_phi_spline" + S "Y_spline" * S "binormal_phi_spline"
                    + S "Z_spline" * S "tangent_phi_spline") ^ 2)) * hcs i.phi0)
  · qsc_rfl

/-- the rotation preserves the horizontal length: `x² + y² = vR² + vphi²` when `c² + s² = 1` -/
theorem cart_norm (c s vR vphi : K) (h : c * c + s * s = 1) :
    cartX c s vR vphi * cartX c s vR vphi + cartY c s vR vphi * cartY c s vR vphi = vR * vR + vphi * vphi := by
  unfold cartX cartY
  linear_combination (vR * vR + vphi * vphi) * h

end Algebra

/-! ### polar form at ℝ -/

/-- if `(x, y) = ρ (cos φ, sin φ)` with `ρ ≥ 0` then `sqrt(x x + y y) = ρ` -/
theorem sqrt_polar {x y ρ φ : ℝ} (hx : x = ρ * Real.cos φ) (hy : y = ρ * Real.sin φ) (hρ : 0 ≤ ρ) :
    Real.sqrt (x * x + y * y) = ρ := by
  have h : x * x + y * y = ρ ^ 2 := by
    rw [hx, hy]; linear_combination ρ ^ 2 * Real.cos_sq_add_sin_sq φ
  rw [h, Real.sqrt_sq hρ]

/-- order r1: `(total_R, total_phi)` are polar coordinates of `(total_x, total_y)`, ASSUMING that `total_phi` is a
polar angle of that point (`hpolar`) – nothing else is assumed of `atan2` -/
theorem one_point_polar_r1 (o : Ops ℝ) (i : Gen.F2C1.In ℝ) (ρ : ℝ)
    (hsqrt : o.sqrt = Real.sqrt) (hcos : o.cos = Real.cos) (hsin : o.sin = Real.sin)
    (hpolar : Gen.F2C1.total_x_r1 o i = ρ * Real.cos (Gen.F2C1.total_phi_r1 o i) ∧
              Gen.F2C1.total_y_r1 o i = ρ * Real.sin (Gen.F2C1.total_phi_r1 o i) ∧ 0 ≤ ρ) :
    Gen.F2C1.total_R_r1 o i * o.cos (Gen.F2C1.total_phi_r1 o i) = Gen.F2C1.total_x_r1 o i ∧
    Gen.F2C1.total_R_r1 o i * o.sin (Gen.F2C1.total_phi_r1 o i) = Gen.F2C1.total_y_r1 o i := by
  obtain ⟨hx, hy, hρ⟩ := hpolar
  have hcs : ∀ x, o.cos x ^ 2 + o.sin x ^ 2 = 1 := by
    intro x; rw [hcos, hsin]; exact Real.cos_sq_add_sin_sq x
  have hR : Gen.F2C1.total_R_r1 o i = ρ := by
    rw [(one_point_is_position_r1 o i hcs).2.2.2.1, hsqrt]; exact sqrt_polar hx hy hρ
  rw [hR, hcos, hsin]
  exact ⟨hx.symm, hy.symm⟩

theorem one_point_polar_r2 (o : Ops ℝ) (i : Gen.F2C1.In ℝ) (ρ : ℝ)
    (hsqrt : o.sqrt = Real.sqrt) (hcos : o.cos = Real.cos) (hsin : o.sin = Real.sin)
    (hpolar : Gen.F2C1.total_x_r2 o i = ρ * Real.cos (Gen.F2C1.total_phi_r2 o i) ∧
              Gen.F2C1.total_y_r2 o i = ρ * Real.sin (Gen.F2C1.total_phi_r2 o i) ∧ 0 ≤ ρ) :
    Gen.F2C1.total_R_r2 o i * o.cos (Gen.F2C1.total_phi_r2 o i) = Gen.F2C1.total_x_r2 o i ∧
    Gen.F2C1.total_R_r2 o i * o.sin (Gen.F2C1.total_phi_r2 o i) = Gen.F2C1.total_y_r2 o i := by
  obtain ⟨hx, hy, hρ⟩ := hpolar
  have hcs : ∀ x, o.cos x ^ 2 + o.sin x ^ 2 = 1 := by
    intro x; rw [hcos, hsin]; exact Real.cos_sq_add_sin_sq x
  have hR : Gen.F2C1.total_R_r2 o i = ρ := by
    rw [(one_point_is_position_r2 o i hcs).2.2.2.1, hsqrt]; exact sqrt_polar hx hy hρ
  rw [hR, hcos, hsin]
  exact ⟨hx.symm, hy.symm⟩

/-- `Complex.arg ⟨x, y⟩` is a polar angle of `(x, y)` with radius `‖⟨x,y⟩‖ ≥ 0` -/
theorem arg_polar (x y : ℝ) :
    x = ‖(⟨x, y⟩ : ℂ)‖ * Real.cos (Complex.arg ⟨x, y⟩) ∧ y = ‖(⟨x, y⟩ : ℂ)‖ * Real.sin (Complex.arg ⟨x, y⟩) ∧
      0 ≤ ‖(⟨x, y⟩ : ℂ)‖ :=
  ⟨(Complex.norm_mul_cos_arg ⟨x, y⟩).symm, (Complex.norm_mul_sin_arg ⟨x, y⟩).symm, norm_nonneg _⟩

/-- order r1, with the real-number semantics of `np.arctan2` (`atan2 y x = arg (x + i y)`, principal value):
no polar hypothesis needed; moreover `total_phi ∈ (-π, π]` -/
theorem one_point_polar_arg_r1 (o : Ops ℝ) (i : Gen.F2C1.In ℝ)
    (hsqrt : o.sqrt = Real.sqrt) (hcos : o.cos = Real.cos) (hsin : o.sin = Real.sin)
    (hatan : ∀ y x, o.atan2 y x = Complex.arg ⟨x, y⟩) :
    Gen.F2C1.total_R_r1 o i * o.cos (Gen.F2C1.total_phi_r1 o i) = Gen.F2C1.total_x_r1 o i ∧
    Gen.F2C1.total_R_r1 o i * o.sin (Gen.F2C1.total_phi_r1 o i) = Gen.F2C1.total_y_r1 o i ∧
    -Real.pi < Gen.F2C1.total_phi_r1 o i ∧ Gen.F2C1.total_phi_r1 o i ≤ Real.pi := by
  have hphi : Gen.F2C1.total_phi_r1 o i = Complex.arg ⟨Gen.F2C1.total_x_r1 o i, Gen.F2C1.total_y_r1 o i⟩ := by
    rw [Gen.F2C1.total_phi_r1, hatan]
  have hp := arg_polar (Gen.F2C1.total_x_r1 o i) (Gen.F2C1.total_y_r1 o i)
  rw [← hphi] at hp
  obtain ⟨h1, h2⟩ := one_point_polar_r1 o i _ hsqrt hcos hsin hp
  refine ⟨h1, h2, ?_, ?_⟩
  · rw [hphi]; exact Complex.neg_pi_lt_arg _
  · rw [hphi]; exact Complex.arg_le_pi _

theorem one_point_polar_arg_r2 (o : Ops ℝ) (i : Gen.F2C1.In ℝ)
    (hsqrt : o.sqrt = Real.sqrt) (hcos : o.cos = Real.cos) (hsin : o.sin = Real.sin)
    (hatan : ∀ y x, o.atan2 y x = Complex.arg ⟨x, y⟩) :
    Gen.F2C1.total_R_r2 o i * o.cos (Gen.F2C1.total_phi_r2 o i) = Gen.F2C1.total_x_r2 o i ∧
    Gen.F2C1.total_R_r2 o i * o.sin (Gen.F2C1.total_phi_r2 o i) = Gen.F2C1.total_y_r2 o i ∧
    -Real.pi < Gen.F2C1.total_phi_r2 o i ∧ Gen.F2C1.total_phi_r2 o i ≤ Real.pi := by
  have hphi : Gen.F2C1.total_phi_r2 o i = Complex.arg ⟨Gen.F2C1.total_x_r2 o i, Gen.F2C1.total_y_r2 o i⟩ := by
    rw [Gen.F2C1.total_phi_r2, hatan]
  have hp := arg_polar (Gen.F2C1.total_x_r2 o i) (Gen.F2C1.total_y_r2 o i)
  rw [← hphi] at hp
  obtain ⟨h1, h2⟩ := one_point_polar_r2 o i _ hsqrt hcos hsin hp
  refine ⟨h1, h2, ?_, ?_⟩
  · rw [hphi]; exact Complex.neg_pi_lt_arg _
  · rw [hphi]; exact Complex.arg_le_pi _

/-! ### the residual function -/

section Residual
variable {K : Type} [CommRing K]

/-- input wiring: the residual function and the point map read the same interpolants at the same `phi0` -/
def resIn (phi0 phi_target : K) : Gen.F2CRes.In K := { phi0 := phi0, phi_target := phi_target }

/-- order r1, unwrapped branch (no ±2π correction applied): the residual vanishes iff the toroidal angle
`atan2(total_y, total_x)` of the displaced point – the `total_phi` of `Frenet_to_cylindrical_1_point` – equals
`phi_target` -/
theorem residual_zero_means_target_r1 (o : Ops K) (phi0 phi_target : K) :
    Gen.F2CRes.residual_r1 o (resIn phi0 phi_target) = Gen.F2C1.total_phi_r1 o ⟨phi0⟩ - phi_target ∧
    (Gen.F2CRes.residual_r1 o (resIn phi0 phi_target) = 0 ↔
      o.atan2 (Gen.F2C1.total_y_r1 o ⟨phi0⟩) (Gen.F2C1.total_x_r1 o ⟨phi0⟩) = phi_target) :=
  ⟨rfl, sub_eq_zero⟩

/-- order ≠ r1, unwrapped branch -/
theorem residual_zero_means_target_r2 (o : Ops K) (phi0 phi_target : K) :
    Gen.F2CRes.residual_r2 o (resIn phi0 phi_target) = Gen.F2C1.total_phi_r2 o ⟨phi0⟩ - phi_target ∧
    (Gen.F2CRes.residual_r2 o (resIn phi0 phi_target) = 0 ↔
      o.atan2 (Gen.F2C1.total_y_r2 o ⟨phi0⟩) (Gen.F2C1.total_x_r2 o ⟨phi0⟩) = phi_target) :=
  ⟨rfl, sub_eq_zero⟩

end Residual

/-- the Python post-processing of the residual, the two sequential `if`s:
`if res > π: res -= 2π;  if res < -π: res += 2π` -/
noncomputable def pyWrap (res : ℝ) : ℝ :=
  let r1 := if res > Real.pi then res - 2 * Real.pi else res
  if r1 < -Real.pi then r1 + 2 * Real.pi else r1

/-- on the branch followed by the generated definition (`-π ≤ res ≤ π`) nothing is applied -/
theorem pyWrap_eq_self {res : ℝ} (h1 : -Real.pi ≤ res) (h2 : res ≤ Real.pi) : pyWrap res = res := by
  unfold pyWrap
  simp only [not_lt.mpr h2, if_false, not_lt.mpr h1]

/-- zero set of the full Python residual: the unwrapped residual is `0` or `±2π`
(i.e. `total_phi = phi_target`, or they differ by exactly one turn) -/
theorem pyWrap_zero_iff (res : ℝ) : pyWrap res = 0 ↔ res = 0 ∨ res = 2 * Real.pi ∨ res = -(2 * Real.pi) := by
  have hpi := Real.pi_pos
  unfold pyWrap
  by_cases h1 : res > Real.pi
  · have h2 : ¬ (res - 2 * Real.pi < -Real.pi) := by linarith
    simp only [h1, if_true, h2, if_false]
    constructor
    · intro h; right; left; linarith
    · rintro (h | h | h) <;> linarith
  · simp only [h1, if_false]
    by_cases h3 : res < -Real.pi
    · simp only [h3, if_true]
      constructor
      · intro h; right; right; linarith
      · rintro (h | h | h) <;> linarith
    · simp only [h3, if_false]
      constructor
      · intro h; left; exact h
      · rintro (h | h | h) <;> linarith

/-- with `atan2 = arg` and `phi_target` within half a turn of the angle, the full Python residual is the generated
one, so its zero is exactly `total_phi = phi_target` -/
theorem residual_full_zero_iff_r2 (o : Ops ℝ) (phi0 phi_target : ℝ)
    (h1 : -Real.pi ≤ Gen.F2CRes.residual_r2 o (resIn phi0 phi_target))
    (h2 : Gen.F2CRes.residual_r2 o (resIn phi0 phi_target) ≤ Real.pi) :
    pyWrap (Gen.F2CRes.residual_r2 o (resIn phi0 phi_target)) = 0 ↔ Gen.F2C1.total_phi_r2 o ⟨phi0⟩ = phi_target := by
  rw [pyWrap_eq_self h1 h2, (residual_zero_means_target_r2 o phi0 phi_target).2]; rfl

theorem residual_full_zero_iff_r1 (o : Ops ℝ) (phi0 phi_target : ℝ)
    (h1 : -Real.pi ≤ Gen.F2CRes.residual_r1 o (resIn phi0 phi_target))
    (h2 : Gen.F2CRes.residual_r1 o (resIn phi0 phi_target) ≤ Real.pi) :
    pyWrap (Gen.F2CRes.residual_r1 o (resIn phi0 phi_target)) = 0 ↔ Gen.F2C1.total_phi_r1 o ⟨phi0⟩ = phi_target := by
  rw [pyWrap_eq_self h1 h2, (residual_zero_means_target_r1 o phi0 phi_target).2]; rfl

/-! ### `to_RZ` -/

section Shapes
variable {K : Type} [CommRing K]
open Gen.ToRZ

/-- O(r) shapes -/
theorem shape_at_theta_r1 (o : Ops K) (i : Gen.ToRZ.In K) :
    X_at_this_theta_r1 o i = i.r * (i.X1c_untwisted * o.cos i.theta + i.X1s_untwisted * o.sin i.theta) ∧
    Y_at_this_theta_r1 o i = i.r * (i.Y1c_untwisted * o.cos i.theta + i.Y1s_untwisted * o.sin i.theta) ∧
    Z_at_this_theta_r1 o i = 0 := by
  refine ⟨?_, ?_, ?_⟩
  · qsc_rfl
  · qsc_rfl
  · simp only [Z_at_this_theta_r1, Nat.cast_zero, zero_mul]

/-- O(r²) shapes -/
theorem shape_at_theta_r2 (o : Ops K) (i : Gen.ToRZ.In K) :
    X_at_this_theta_r2 o i = i.r * (i.X1c_untwisted * o.cos i.theta + i.X1s_untwisted * o.sin i.theta)
      + i.r ^ 2 * (i.X20_untwisted + i.X2c_untwisted * o.cos (2 * i.theta) + i.X2s_untwisted * o.sin (2 * i.theta)) ∧
    Y_at_this_theta_r2 o i = i.r * (i.Y1c_untwisted * o.cos i.theta + i.Y1s_untwisted * o.sin i.theta)
      + i.r ^ 2 * (i.Y20_untwisted + i.Y2c_untwisted * o.cos (2 * i.theta) + i.Y2s_untwisted * o.sin (2 * i.theta)) ∧
    Z_at_this_theta_r2 o i =
        i.r ^ 2 * (i.Z20_untwisted + i.Z2c_untwisted * o.cos (2 * i.theta) + i.Z2s_untwisted * o.sin (2 * i.theta)) := by
  simp only [X_at_this_theta_r2, Y_at_this_theta_r2, Z_at_this_theta_r2, Nat.cast_zero, Nat.cast_ofNat]
  refine ⟨?_, ?_, ?_⟩ <;> ring

/-- O(r³) shapes -/
theorem shape_at_theta_r3 (o : Ops K) (i : Gen.ToRZ.In K) :
    X_at_this_theta_r3 o i = i.r * (i.X1c_untwisted * o.cos i.theta + i.X1s_untwisted * o.sin i.theta)
      + i.r ^ 2 * (i.X20_untwisted + i.X2c_untwisted * o.cos (2 * i.theta) + i.X2s_untwisted * o.sin (2 * i.theta))
      + i.r ^ 3 * (i.X3c1_untwisted * o.cos i.theta + i.X3s1_untwisted * o.sin i.theta
          + i.X3c3_untwisted * o.cos (3 * i.theta) + i.X3s3_untwisted * o.sin (3 * i.theta)) ∧
    Y_at_this_theta_r3 o i = i.r * (i.Y1c_untwisted * o.cos i.theta + i.Y1s_untwisted * o.sin i.theta)
      + i.r ^ 2 * (i.Y20_untwisted + i.Y2c_untwisted * o.cos (2 * i.theta) + i.Y2s_untwisted * o.sin (2 * i.theta))
      + i.r ^ 3 * (i.Y3c1_untwisted * o.cos i.theta + i.Y3s1_untwisted * o.sin i.theta
          + i.Y3c3_untwisted * o.cos (3 * i.theta) + i.Y3s3_untwisted * o.sin (3 * i.theta)) ∧
    Z_at_this_theta_r3 o i =
        i.r ^ 2 * (i.Z20_untwisted + i.Z2c_untwisted * o.cos (2 * i.theta) + i.Z2s_untwisted * o.sin (2 * i.theta))
      + i.r ^ 3 * (i.Z3c1_untwisted * o.cos i.theta + i.Z3s1_untwisted * o.sin i.theta
          + i.Z3c3_untwisted * o.cos (3 * i.theta) + i.Z3s3_untwisted * o.sin (3 * i.theta)) := by
  simp only [X_at_this_theta_r3, Y_at_this_theta_r3, Z_at_this_theta_r3, Nat.cast_zero, Nat.cast_ofNat]
  refine ⟨?_, ?_, ?_⟩ <;> ring

/-- the lower-order shapes are truncations of the higher ones -/
theorem shape_truncation (o : Ops K) (i : Gen.ToRZ.In K) :
    X_at_this_theta_r2 o i = X_at_this_theta_r1 o i
      + i.r ^ 2 * (i.X20_untwisted + i.X2c_untwisted * o.cos (2 * i.theta) + i.X2s_untwisted * o.sin (2 * i.theta)) ∧
    X_at_this_theta_r3 o i = X_at_this_theta_r2 o i
      + i.r ^ 3 * (i.X3c1_untwisted * o.cos i.theta + i.X3s1_untwisted * o.sin i.theta
          + i.X3c3_untwisted * o.cos (3 * i.theta) + i.X3s3_untwisted * o.sin (3 * i.theta)) := by
  rw [(shape_at_theta_r3 o i).1, (shape_at_theta_r2 o i).1, (shape_at_theta_r1 o i).1]
  refine ⟨?_, ?_⟩ <;> qsc_rfl

/-- order r1: `to_RZ` returns the values of `Frenet_to_cylindrical_1_point` at the same `phi0`, same interpolants -/
theorem toRZ_is_one_point_r1 (o : Ops K) (i : Gen.ToRZ.In K) :
    R_r1 o i = Gen.F2C1.total_R_r1 o ⟨i.phi0⟩ ∧ Z_r1 o i = Gen.F2C1.total_z_r1 o ⟨i.phi0⟩ ∧
    phi_out_r1 o i = Gen.F2C1.total_phi_r1 o ⟨i.phi0⟩ := by
  refine ⟨?_, ?_, ?_⟩ <;> qsc_rfl

/-- order r2 (branch `order != 'r1'` of the point map) -/
theorem toRZ_is_one_point_r2 (o : Ops K) (i : Gen.ToRZ.In K) :
    R_r2 o i = Gen.F2C1.total_R_r2 o ⟨i.phi0⟩ ∧ Z_r2 o i = Gen.F2C1.total_z_r2 o ⟨i.phi0⟩ ∧
    phi_out_r2 o i = Gen.F2C1.total_phi_r2 o ⟨i.phi0⟩ := by
  refine ⟨?_, ?_, ?_⟩ <;> qsc_rfl

/-- order r3 (the point map has only the two branches; r3 takes `order != 'r1'`) -/
theorem toRZ_is_one_point_r3 (o : Ops K) (i : Gen.ToRZ.In K) :
    R_r3 o i = Gen.F2C1.total_R_r2 o ⟨i.phi0⟩ ∧ Z_r3 o i = Gen.F2C1.total_z_r2 o ⟨i.phi0⟩ ∧
    phi_out_r3 o i = Gen.F2C1.total_phi_r2 o ⟨i.phi0⟩ := by
  refine ⟨?_, ?_, ?_⟩ <;> qsc_rfl

/-- order r1 end to end: if the interpolants built by `to_RZ` (`convert_to_spline(X_at_this_theta)` …) reproduce
the shapes at `phi0`, the returned `(R, Z)` are the cylindrical radius and height of `r₀ + X(θ) n + Y(θ) b` -/
theorem toRZ_position_r1 (o : Ops K) (i : Gen.ToRZ.In K)
    (hcs : ∀ x, o.cos x ^ 2 + o.sin x ^ 2 = 1)
    (hX : o.spline "X_spline" i.phi0 = X_at_this_theta_r1 o i)
    (hY : o.spline "Y_spline" i.phi0 = Y_at_this_theta_r1 o i) :
    let S := fun nm => o.spline nm i.phi0
    let c := o.cos i.phi0
    let s := o.sin i.phi0
    let X := i.r * (i.X1c_untwisted * o.cos i.theta + i.X1s_untwisted * o.sin i.theta)
    let Y := i.r * (i.Y1c_untwisted * o.cos i.theta + i.Y1s_untwisted * o.sin i.theta)
    let x := S "R0_func" * c + X * cartX c s (S "normal_R_spline") (S "normal_phi_spline")
        + Y * cartX c s (S "binormal_R_spline") (S "binormal_phi_spline")
    let y := S "R0_func" * s + X * cartY c s (S "normal_R_spline") (S "normal_phi_spline")
        + Y * cartY c s (S "binormal_R_spline") (S "binormal_phi_spline")
    R_r1 o i = o.sqrt (x * x + y * y) ∧
    Z_r1 o i = S "Z0_func" + X * S "normal_z_spline" + Y * S "binormal_z_spline" ∧
    phi_out_r1 o i = o.atan2 y x := by
  intro S c s X Y x y
  have hX' : o.spline "X_spline" i.phi0 = X := hX.trans (shape_at_theta_r1 o i).1
  have hY' : o.spline "Y_spline" i.phi0 = Y := hY.trans (shape_at_theta_r1 o i).2.1
  obtain ⟨hR, hZ, hphi⟩ := toRZ_is_one_point_r1 o i
  have hpos := one_point_is_position_r1 o ⟨i.phi0⟩ hcs
  simp only [hX', hY'] at hpos
  obtain ⟨hx, hy, hz, hR', hphi'⟩ := hpos
  rw [hR, hZ, hphi, hR', hphi', hx, hy, hz]
  exact ⟨rfl, rfl, rfl⟩

/-- order r3 end to end -/
theorem toRZ_position_r3 (o : Ops K) (i : Gen.ToRZ.In K)
    (hcs : ∀ x, o.cos x ^ 2 + o.sin x ^ 2 = 1)
    (hX : o.spline "X_spline" i.phi0 = X_at_this_theta_r3 o i)
    (hY : o.spline "Y_spline" i.phi0 = Y_at_this_theta_r3 o i)
    (hZ : o.spline "Z_spline" i.phi0 = Z_at_this_theta_r3 o i) :
    let S := fun nm => o.spline nm i.phi0
    let c := o.cos i.phi0
    let s := o.sin i.phi0
    let X := X_at_this_theta_r3 o i
    let Y := Y_at_this_theta_r3 o i
    let Z := Z_at_this_theta_r3 o i
    let x := S "R0_func" * c + X * cartX c s (S "normal_R_spline") (S "normal_phi_spline")
        + Y * cartX c s (S "binormal_R_spline") (S "binormal_phi_spline")
        + Z * cartX c s (S "tangent_R_spline") (S "tangent_phi_spline")
    let y := S "R0_func" * s + X * cartY c s (S "normal_R_spline") (S "normal_phi_spline")
        + Y * cartY c s (S "binormal_R_spline") (S "binormal_phi_spline")
        + Z * cartY c s (S "tangent_R_spline") (S "tangent_phi_spline")
    R_r3 o i = o.sqrt (x * x + y * y) ∧
    Z_r3 o i = S "Z0_func" + X * S "normal_z_spline" + Y * S "binormal_z_spline" + Z * S "tangent_z_spline" ∧
    phi_out_r3 o i = o.atan2 y x := by
  intro S c s X Y Z x y
  obtain ⟨hR, hZ', hphi⟩ := toRZ_is_one_point_r3 o i
  have hpos := one_point_is_position_r2 o ⟨i.phi0⟩ hcs
  simp only [hX, hY, hZ] at hpos
  obtain ⟨hx, hy, hz, hR', hphi'⟩ := hpos
  rw [hR, hZ', hphi, hR', hphi', hx, hy, hz]
  exact ⟨rfl, rfl, rfl⟩

/-- order r2 end to end -/
theorem toRZ_position_r2 (o : Ops K) (i : Gen.ToRZ.In K)
    (hcs : ∀ x, o.cos x ^ 2 + o.sin x ^ 2 = 1)
    (hX : o.spline "X_spline" i.phi0 = X_at_this_theta_r2 o i)
    (hY : o.spline "Y_spline" i.phi0 = Y_at_this_theta_r2 o i)
    (hZ : o.spline "Z_spline" i.phi0 = Z_at_this_theta_r2 o i) :
    let S := fun nm => o.spline nm i.phi0
    let c := o.cos i.phi0
    let s := o.sin i.phi0
    let X := X_at_this_theta_r2 o i
    let Y := Y_at_this_theta_r2 o i
    let Z := Z_at_this_theta_r2 o i
    let x := S "R0_func" * c + X * cartX c s (S "normal_R_spline") (S "normal_phi_spline")
        + Y * cartX c s (S "binormal_R_spline") (S "binormal_phi_spline")
        + Z * cartX c s (S "tangent_R_spline") (S "tangent_phi_spline")
    let y := S "R0_func" * s + X * cartY c s (S "normal_R_spline") (S "normal_phi_spline")
        + Y * cartY c s (S "binormal_R_spline") (S "binormal_phi_spline")
        + Z * cartY c s (S "tangent_R_spline") (S "tangent_phi_spline")
    R_r2 o i = o.sqrt (x * x + y * y) ∧
    Z_r2 o i = S "Z0_func" + X * S "normal_z_spline" + Y * S "binormal_z_spline" + Z * S "tangent_z_spline" ∧
    phi_out_r2 o i = o.atan2 y x := by
  intro S c s X Y Z x y
  obtain ⟨hR, hZ', hphi⟩ := toRZ_is_one_point_r2 o i
  have hpos := one_point_is_position_r2 o ⟨i.phi0⟩ hcs
  simp only [hX, hY, hZ] at hpos
  obtain ⟨hx, hy, hz, hR', hphi'⟩ := hpos
  rw [hR, hZ', hphi, hR', hphi', hx, hy, hz]
  exact ⟨rfl, rfl, rfl⟩

end Shapes

end C14
