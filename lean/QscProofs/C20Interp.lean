import Mathlib.Analysis.SpecialFunctions.Trigonometric.Basic
import Mathlib.Algebra.BigOperators.Group.Finset.Basic
import Mathlib.Algebra.BigOperators.Ring.Finset
import Mathlib.Tactic.Ring
import Mathlib.Tactic.FieldSimp
import Mathlib.Tactic.Linarith
import QscModel.Hand.Interp
/-! C20, interpolation clause.  `fourier_interpolation` at `ℝ` (`guard = id`): reproduces constants, is linear in the
data, and a cyclic shift of the data is a translation of the abscissa by the same number of grid steps.  For odd `N`:
the denominator has the closed form `den · sin(N x/2) = N` (so it never vanishes away from the nodes) and every mode
`sin(a + p x)` with `2p < N` is interpolated exactly at every non-node `x`. -/
namespace C20Interp
open Hand.Interp

theorem sumRange_eq (f : ℕ → ℝ) (n : ℕ) : sumRange f n = ∑ k ∈ Finset.range n, f k := by
  induction n with
  | zero => simp [sumRange]
  | succ n ih => simp [sumRange, ih, Finset.sum_range_succ]

/-- the kernel at `ℝ` in exact arithmetic -/
noncomputable abbrev K (N k : ℕ) (x : ℝ) : ℝ := kern Real.sin Real.tan id Real.pi N k x

theorem sgn_eq (k : ℕ) : (sgn k : ℝ) = (-1) ^ k := by
  unfold sgn
  rcases Nat.even_or_odd k with h | h
  · rw [if_pos (Nat.even_iff.mp h), h.neg_one_pow]; simp
  · rw [if_neg (by rw [Nat.odd_iff.mp h]; decide), h.neg_one_pow]; simp

theorem node_eq (N k : ℕ) : node Real.pi N k = 2 * Real.pi * k / N := by
  unfold node; push_cast; ring

theorem K_eq (N k : ℕ) (x : ℝ) :
    K N k x = if N % 2 = 0 then 1 / Real.tan (1 / 2 * (x - 2 * Real.pi * k / N))
      else 1 / Real.sin (1 / 2 * (x - 2 * Real.pi * k / N)) := by
  unfold K kern; simp only [node_eq, id]; push_cast; rfl

theorem interp_eq (f : ℕ → ℝ) (N : ℕ) (x : ℝ) :
    interp Real.sin Real.tan id Real.pi f N x =
      (∑ k ∈ Finset.range N, K N k x * (sgn k * f k)) / (∑ k ∈ Finset.range N, K N k x * sgn k) := by
  unfold interp; rw [sumRange_eq, sumRange_eq]

/-- (a) constants are reproduced -/
theorem interp_const (c : ℝ) (N : ℕ) (x : ℝ)
    (hden : sumRange (fun k => kern Real.sin Real.tan id Real.pi N k x * sgn k) N ≠ 0) :
    interp Real.sin Real.tan id Real.pi (fun _ => c) N x = c := by
  rw [sumRange_eq] at hden
  rw [interp_eq]
  have : (∑ k ∈ Finset.range N, K N k x * (sgn k * c)) = (∑ k ∈ Finset.range N, K N k x * sgn k) * c := by
    rw [Finset.sum_mul]; exact Finset.sum_congr rfl (fun k _ => by ring)
  rw [this]; exact mul_div_cancel_left₀ c hden

/-- (b) linearity in the data -/
theorem interp_linear (a b : ℝ) (f g : ℕ → ℝ) (N : ℕ) (x : ℝ) :
    interp Real.sin Real.tan id Real.pi (fun k => a * f k + b * g k) N x =
      a * interp Real.sin Real.tan id Real.pi f N x + b * interp Real.sin Real.tan id Real.pi g N x := by
  simp only [interp_eq]
  have : (∑ k ∈ Finset.range N, K N k x * (sgn k * (a * f k + b * g k))) =
      a * (∑ k ∈ Finset.range N, K N k x * (sgn k * f k)) + b * (∑ k ∈ Finset.range N, K N k x * (sgn k * g k)) := by
    rw [Finset.mul_sum, Finset.mul_sum, ← Finset.sum_add_distrib]
    exact Finset.sum_congr rfl (fun k _ => by ring)
  rw [this]; ring

theorem mod_shift_cases {k s N : ℕ} (hk : k < N) (hs : s < N) :
    ((k + s) % N = k + s ∧ k + s < N) ∨ ((k + s) % N = k + s - N ∧ N ≤ k + s) := by
  rcases Nat.lt_or_ge (k + s) N with h | h
  · exact Or.inl ⟨Nat.mod_eq_of_lt h, h⟩
  · refine Or.inr ⟨?_, h⟩
    rw [Nat.mod_eq_sub_mod h, Nat.mod_eq_of_lt (by omega)]

/-- the weighted kernel picks up the global sign `(-1)^s` under `k ↦ (k+s) % N`, `x ↦ x + 2π s / N` -/
theorem kern_shift {k s N : ℕ} (hk : k < N) (hs : s < N) (x : ℝ) :
    K N ((k + s) % N) (x + 2 * Real.pi * s / N) * sgn ((k + s) % N) = (-1) ^ s * (K N k x * sgn k) := by
  have hN : (N : ℝ) ≠ 0 := by
    have : 0 < N := by omega
    positivity
  rcases mod_shift_cases hk hs with ⟨e, h⟩ | ⟨e, h⟩
  · rw [e, sgn_eq, sgn_eq, K_eq, K_eq]
    have : (1 / 2 * (x + 2 * Real.pi * s / N - 2 * Real.pi * ((k + s : ℕ) : ℝ) / N)) =
        1 / 2 * (x - 2 * Real.pi * k / N) := by push_cast; ring
    rw [this, pow_add]; ring
  · rw [e, sgn_eq, sgn_eq, K_eq, K_eq]
    have harg : (1 / 2 * (x + 2 * Real.pi * s / N - 2 * Real.pi * ((k + s - N : ℕ) : ℝ) / N)) =
        1 / 2 * (x - 2 * Real.pi * k / N) + Real.pi := by
      rw [Nat.cast_sub h]; push_cast; field_simp; ring
    have hpow : (-1 : ℝ) ^ (k + s - N) * (-1) ^ N = (-1) ^ k * (-1) ^ s := by
      rw [← pow_add, Nat.sub_add_cancel h, pow_add]
    rw [harg]
    rcases Nat.even_or_odd N with hp | hp
    · rw [if_pos (Nat.even_iff.mp hp), if_pos (Nat.even_iff.mp hp), Real.tan_periodic]
      rw [hp.neg_one_pow, mul_one] at hpow
      rw [hpow]; ring
    · have hne : ¬ N % 2 = 0 := by rw [Nat.odd_iff.mp hp]; decide
      rw [if_neg hne, if_neg hne, Real.sin_add_pi]
      rw [hp.neg_one_pow] at hpow
      have : (-1 : ℝ) ^ (k + s - N) = -((-1) ^ k * (-1) ^ s) := by linarith
      rw [this, one_div, one_div, inv_neg]; ring

/-- re-indexing of a sum over `range N` along the cyclic shift `k ↦ (k+s) % N` -/
theorem sum_range_shift (g : ℕ → ℝ) {s N : ℕ} (hs : s < N) :
    ∑ j ∈ Finset.range N, g j = ∑ k ∈ Finset.range N, g ((k + s) % N) := by
  symm
  refine Finset.sum_nbij' (fun k => (k + s) % N) (fun j => (j + (N - s)) % N) ?_ ?_ ?_ ?_ ?_
  · intro k _; exact Finset.mem_range.mpr (Nat.mod_lt _ (by omega))
  · intro k _; exact Finset.mem_range.mpr (Nat.mod_lt _ (by omega))
  · intro k hk
    have hk := Finset.mem_range.mp hk
    show ((k + s) % N + (N - s)) % N = k
    rcases mod_shift_cases hk hs with ⟨e, h⟩ | ⟨e, h⟩
    · rw [e, show k + s + (N - s) = k + N by omega, Nat.add_mod_right, Nat.mod_eq_of_lt hk]
    · rw [e, show k + s - N + (N - s) = k by omega, Nat.mod_eq_of_lt hk]
  · intro j hj
    have hj := Finset.mem_range.mp hj
    show ((j + (N - s)) % N + s) % N = j
    rcases Nat.lt_or_ge (j + (N - s)) N with h | h
    · rw [Nat.mod_eq_of_lt h, show j + (N - s) + s = j + N by omega, Nat.add_mod_right, Nat.mod_eq_of_lt hj]
    · rw [Nat.mod_eq_sub_mod h, Nat.mod_eq_of_lt (show j + (N - s) - N < N by omega),
        show j + (N - s) - N + s = j by omega, Nat.mod_eq_of_lt hj]
  · intro k _; rfl

/-- (c) a cyclic shift of the data by `s` samples is a translation of the abscissa by `s` grid steps `2π/N` -/
theorem interp_shift (f : ℕ → ℝ) {s N : ℕ} (hs : s < N) (x : ℝ) :
    interp Real.sin Real.tan id Real.pi (fun k => f ((k + s) % N)) N x =
      interp Real.sin Real.tan id Real.pi f N (x + 2 * Real.pi * s / N) := by
  rw [interp_eq, interp_eq]
  rw [sum_range_shift (fun j => K N j (x + 2 * Real.pi * s / N) * (sgn j * f j)) hs,
    sum_range_shift (fun j => K N j (x + 2 * Real.pi * s / N) * sgn j) hs]
  have h1 : ∑ k ∈ Finset.range N, K N ((k + s) % N) (x + 2 * Real.pi * s / N)
        * (sgn ((k + s) % N) * f ((k + s) % N)) =
      (-1) ^ s * ∑ k ∈ Finset.range N, K N k x * (sgn k * f ((k + s) % N)) := by
    rw [Finset.mul_sum]
    refine Finset.sum_congr rfl (fun k hk => ?_)
    rw [← mul_assoc, kern_shift (Finset.mem_range.mp hk) hs]; ring
  have h2 : ∑ k ∈ Finset.range N, K N ((k + s) % N) (x + 2 * Real.pi * s / N) * sgn ((k + s) % N) =
      (-1) ^ s * ∑ k ∈ Finset.range N, K N k x * sgn k := by
    rw [Finset.mul_sum]
    exact Finset.sum_congr rfl (fun k hk => kern_shift (Finset.mem_range.mp hk) hs x)
  rw [h1, h2, mul_div_mul_left _ _ (pow_ne_zero s (by norm_num : (-1 : ℝ) ≠ 0))]

/-- the same with the model's own spelling of the grid step, `node π N s = (s * 2 * π) / N` -/
theorem interp_shift_node (f : ℕ → ℝ) {s N : ℕ} (hs : s < N) (x : ℝ) :
    interp Real.sin Real.tan id Real.pi (fun k => f ((k + s) % N)) N x =
      interp Real.sin Real.tan id Real.pi f N (x + node Real.pi N s) := by
  rw [interp_shift f hs, node_eq]

/-! ### (d) exactness on resolvable modes, odd `N` -/

theorem two_sin_mul_sin (h b : ℝ) : 2 * Real.sin h * Real.sin b = Real.cos (b - h) - Real.cos (b + h) := by
  rw [Real.cos_sub, Real.cos_add]; ring

theorem two_sin_mul_cos (h b : ℝ) : 2 * Real.sin h * Real.cos b = Real.sin (b + h) - Real.sin (b - h) := by
  rw [Real.sin_sub, Real.sin_add]; ring

/-- a full period of equispaced samples of a non-constant mode sums to zero (real telescoping proof) -/
theorem sum_sin_arith {q N : ℕ} (hq : 0 < q) (hqN : q < N) (α : ℝ) :
    ∑ k ∈ Finset.range N, Real.sin (α + k * (2 * Real.pi * q / N)) = 0 := by
  have hN0 : (0 : ℝ) < N := by
    have : 0 < N := by omega
    positivity
  have hN : (N : ℝ) ≠ 0 := ne_of_gt hN0
  set θ : ℝ := 2 * Real.pi * q / N with hθ
  have hs : Real.sin (θ / 2) ≠ 0 := by
    apply ne_of_gt
    have hq' : (0 : ℝ) < q := by positivity
    have hqN' : (q : ℝ) < N := by exact_mod_cast hqN
    have e : θ / 2 = Real.pi * (q / N) := by rw [hθ]; ring
    rw [e]
    apply Real.sin_pos_of_pos_of_lt_pi
    · have := Real.pi_pos; positivity
    · have : (q : ℝ) / N < 1 := (div_lt_one hN0).mpr hqN'
      nlinarith [Real.pi_pos]
  have key : ∀ k : ℕ, 2 * Real.sin (θ / 2) * Real.sin (α + k * θ) =
      Real.cos (α + k * θ - θ / 2) - Real.cos (α + ((k + 1 : ℕ) : ℝ) * θ - θ / 2) := by
    intro k
    have e2 : α + ((k + 1 : ℕ) : ℝ) * θ - θ / 2 = (α + k * θ) + θ / 2 := by push_cast; ring
    rw [e2, two_sin_mul_sin]
  have tele := Finset.sum_range_sub' (fun k : ℕ => Real.cos (α + (k : ℝ) * θ - θ / 2)) N
  have h0 : 2 * Real.sin (θ / 2) * ∑ k ∈ Finset.range N, Real.sin (α + k * θ) = 0 := by
    rw [Finset.mul_sum, Finset.sum_congr rfl (fun k _ => key k), tele]
    have e : α + (N : ℝ) * θ - θ / 2 = (α - θ / 2) + q * (2 * Real.pi) := by rw [hθ]; field_simp; ring
    rw [e, Real.cos_add_nat_mul_two_pi]; simp
  exact (mul_eq_zero.mp h0).resolve_left (mul_ne_zero two_ne_zero hs)

theorem sum_cos_arith {q N : ℕ} (hq : 0 < q) (hqN : q < N) (α : ℝ) :
    ∑ k ∈ Finset.range N, Real.cos (α + k * (2 * Real.pi * q / N)) = 0 := by
  rw [← sum_sin_arith hq hqN (α + Real.pi / 2)]
  refine Finset.sum_congr rfl (fun k _ => ?_)
  rw [← Real.sin_add_pi_div_two]; congr 1; ring

/-- alternating sums of odd half-modes below the Nyquist limit vanish (odd `N = 2t+1`) -/
theorem sum_alt_cos {N t r : ℕ} (hN : N = 2 * t + 1) (hr : r < t) (c : ℝ) (hc : c = 2 * r + 1) (α : ℝ) :
    ∑ k ∈ Finset.range N, (-1) ^ k * Real.cos (α + c * (Real.pi * k / N)) = 0 := by
  have hN' : (N : ℝ) ≠ 0 := by rw [hN]; positivity
  rw [← sum_cos_arith (q := r + t + 1) (N := N) (by omega) (by omega) α]
  refine Finset.sum_congr rfl (fun k _ => ?_)
  rw [← Real.cos_add_nat_mul_pi]; congr 1
  rw [hc]; field_simp; rw [hN]; push_cast; ring

/-- `2 sin φ · Σ_{m<p} cos((p-1-2m) φ) = 2 sin(p φ)` -/
theorem sin_mul_dirichlet (p : ℕ) (φ : ℝ) :
    2 * Real.sin φ * ∑ m ∈ Finset.range p, Real.cos (((p : ℝ) - 1 - 2 * m) * φ) = 2 * Real.sin (p * φ) := by
  have key : ∀ m : ℕ, 2 * Real.sin φ * Real.cos (((p : ℝ) - 1 - 2 * m) * φ) =
      Real.sin (((p : ℝ) - 2 * m) * φ) - Real.sin (((p : ℝ) - 2 * ((m + 1 : ℕ) : ℝ)) * φ) := by
    intro m
    have e1 : ((p : ℝ) - 2 * m) * φ = ((p : ℝ) - 1 - 2 * m) * φ + φ := by ring
    have e2 : ((p : ℝ) - 2 * ((m + 1 : ℕ) : ℝ)) * φ = ((p : ℝ) - 1 - 2 * m) * φ - φ := by push_cast; ring
    rw [e1, e2, two_sin_mul_cos]
  have tele := Finset.sum_range_sub' (fun m : ℕ => Real.sin (((p : ℝ) - 2 * (m : ℝ)) * φ)) p
  rw [Finset.mul_sum, Finset.sum_congr rfl (fun m _ => key m), tele]
  have e : ((p : ℝ) - 2 * (p : ℝ)) * φ = -(p * φ) := by ring
  rw [e, Real.sin_neg]; push_cast; ring_nf

/-- numerator = value × denominator for the phase-shifted mode `k ↦ sin(a + p x_k)`, `p ≤ t`, `N = 2t+1` -/
theorem exact_num {N t p : ℕ} (hN : N = 2 * t + 1) (hp : p ≤ t) (a x : ℝ)
    (hnode : ∀ k < N, Real.sin (1 / 2 * (x - 2 * Real.pi * k / N)) ≠ 0) :
    ∑ k ∈ Finset.range N, 1 / Real.sin (1 / 2 * (x - 2 * Real.pi * k / N))
        * ((-1) ^ k * Real.sin (a + p * (2 * Real.pi * k / N))) =
      Real.sin (a + p * x) *
        ∑ k ∈ Finset.range N, 1 / Real.sin (1 / 2 * (x - 2 * Real.pi * k / N)) * (-1) ^ k := by
  rw [← sub_eq_zero, Finset.mul_sum, ← Finset.sum_sub_distrib]
  have term : ∀ k ∈ Finset.range N,
      1 / Real.sin (1 / 2 * (x - 2 * Real.pi * k / N)) * ((-1) ^ k * Real.sin (a + p * (2 * Real.pi * k / N)))
        - Real.sin (a + p * x) * (1 / Real.sin (1 / 2 * (x - 2 * Real.pi * k / N)) * (-1) ^ k) =
      -∑ m ∈ Finset.range p,
        ((-1) ^ k * Real.cos ((a + (2 * (p : ℝ) - 1 - 2 * m) * x / 2) + (2 * (m : ℝ) + 1) * (Real.pi * k / N))
          + (-1) ^ k * Real.cos ((a + (2 * (m : ℝ) + 1) * x / 2)
              + (2 * (p : ℝ) - 1 - 2 * m) * (Real.pi * k / N))) := by
    intro k hk
    have hφ := hnode k (Finset.mem_range.mp hk)
    obtain ⟨φ, hφdef⟩ : ∃ φ : ℝ, φ = 1 / 2 * (x - 2 * Real.pi * k / N) := ⟨_, rfl⟩
    rw [← hφdef] at hφ ⊢
    have hC := sin_mul_dirichlet p φ
    obtain ⟨M, hM⟩ : ∃ M : ℝ, M = a + p * (x + 2 * Real.pi * k / N) / 2 := ⟨_, rfl⟩
    have e1 : a + p * (2 * Real.pi * k / N) = M - p * φ := by rw [hφdef, hM]; ring
    have e2 : a + p * x = M + p * φ := by rw [hφdef, hM]; ring
    have hsum : ∑ m ∈ Finset.range p,
        ((-1) ^ k * Real.cos ((a + (2 * (p : ℝ) - 1 - 2 * m) * x / 2) + (2 * (m : ℝ) + 1) * (Real.pi * k / N))
          + (-1) ^ k * Real.cos ((a + (2 * (m : ℝ) + 1) * x / 2)
              + (2 * (p : ℝ) - 1 - 2 * m) * (Real.pi * k / N))) =
        (-1) ^ k * Real.cos M * (2 * ∑ m ∈ Finset.range p, Real.cos (((p : ℝ) - 1 - 2 * m) * φ)) := by
      rw [Finset.mul_sum, Finset.mul_sum]
      refine Finset.sum_congr rfl (fun m _ => ?_)
      have f1 : (a + (2 * (p : ℝ) - 1 - 2 * m) * x / 2) + (2 * (m : ℝ) + 1) * (Real.pi * k / N) =
          M + ((p : ℝ) - 1 - 2 * m) * φ := by rw [hφdef, hM]; ring
      have f2 : (a + (2 * (m : ℝ) + 1) * x / 2) + (2 * (p : ℝ) - 1 - 2 * m) * (Real.pi * k / N) =
          M - ((p : ℝ) - 1 - 2 * m) * φ := by rw [hφdef, hM]; ring
      rw [f1, f2, Real.cos_add, Real.cos_sub]; ring
    have hS : 2 * ∑ m ∈ Finset.range p, Real.cos (((p : ℝ) - 1 - 2 * m) * φ) = 2 * Real.sin (p * φ) / Real.sin φ := by
      rw [eq_div_iff hφ]; linarith [hC]
    rw [hsum, hS, e1, e2, Real.sin_sub, Real.sin_add]
    field_simp; ring
  rw [Finset.sum_congr rfl term, Finset.sum_neg_distrib, neg_eq_zero, Finset.sum_comm]
  refine Finset.sum_eq_zero (fun m hm => ?_)
  have hm := Finset.mem_range.mp hm
  rw [Finset.sum_add_distrib, sum_alt_cos hN (r := m) (by omega) _ rfl,
    sum_alt_cos hN (r := p - 1 - m) (by omega) _ ?_, add_zero]
  have h1 : (p - 1 - m) + m + 1 = p := by omega
  have h2 : ((p - 1 - m : ℕ) : ℝ) + m + 1 = p := by exact_mod_cast h1
  linarith

theorem sum_cos_mode {N t m : ℕ} (hN : N = 2 * t + 1) (hm : m < N) (hmt : m ≠ t) (x : ℝ) :
    ∑ k ∈ Finset.range N, Real.cos (((N : ℝ) - 1 - 2 * m) * (1 / 2 * (x - 2 * Real.pi * k / N))) = 0 := by
  have hN' : (N : ℝ) ≠ 0 := by rw [hN]; positivity
  have hNt : (N : ℝ) = 2 * t + 1 := by rw [hN]; push_cast; ring
  rcases Nat.lt_or_gt_of_ne hmt with h | h
  · have hq : ((t - m : ℕ) : ℝ) = t - m := Nat.cast_sub (le_of_lt h)
    rw [← sum_cos_arith (q := t - m) (N := N) (by omega) (by omega) (-((t - m : ℕ) * x))]
    refine Finset.sum_congr rfl (fun k _ => ?_)
    rw [← Real.cos_neg]; congr 1
    rw [hq]; field_simp; rw [hNt]; ring
  · have hq : ((m - t : ℕ) : ℝ) = m - t := Nat.cast_sub (le_of_lt h)
    rw [← sum_cos_arith (q := m - t) (N := N) (by omega) (by omega) (-((m - t : ℕ) * x))]
    refine Finset.sum_congr rfl (fun k _ => ?_)
    congr 1
    rw [hq]; field_simp; rw [hNt]; ring

/-- closed form of the barycentric denominator for odd `N`: `den(x) · sin(N x / 2) = N` away from the nodes -/
theorem den_mul_sin {N t : ℕ} (hN : N = 2 * t + 1) (x : ℝ)
    (hnode : ∀ k < N, Real.sin (1 / 2 * (x - 2 * Real.pi * k / N)) ≠ 0) :
    (∑ k ∈ Finset.range N, 1 / Real.sin (1 / 2 * (x - 2 * Real.pi * k / N)) * (-1) ^ k)
      * Real.sin (N * x / 2) = N := by
  have hN' : (N : ℝ) ≠ 0 := by rw [hN]; positivity
  have term : ∀ k ∈ Finset.range N,
      1 / Real.sin (1 / 2 * (x - 2 * Real.pi * k / N)) * (-1) ^ k * Real.sin (N * x / 2) =
      ∑ m ∈ Finset.range N, Real.cos (((N : ℝ) - 1 - 2 * m) * (1 / 2 * (x - 2 * Real.pi * k / N))) := by
    intro k hk
    have hφ := hnode k (Finset.mem_range.mp hk)
    have e : (N : ℝ) * x / 2 = N * (1 / 2 * (x - 2 * Real.pi * k / N)) + k * Real.pi := by field_simp; ring
    obtain ⟨φ, hφdef⟩ : ∃ φ : ℝ, φ = 1 / 2 * (x - 2 * Real.pi * k / N) := ⟨_, rfl⟩
    rw [e]
    rw [← hφdef] at hφ ⊢
    have hC := sin_mul_dirichlet N φ
    have hS : ∑ m ∈ Finset.range N, Real.cos (((N : ℝ) - 1 - 2 * m) * φ) = Real.sin (N * φ) / Real.sin φ := by
      rw [eq_div_iff hφ]; linarith [hC]
    have hsq : ((-1 : ℝ) ^ k) * (-1) ^ k = 1 := by rw [← mul_pow]; norm_num
    rw [hS, Real.sin_add_nat_mul_pi]
    have e3 : 1 / Real.sin φ * (-1) ^ k * ((-1) ^ k * Real.sin (N * φ)) =
        ((-1) ^ k * (-1) ^ k) * Real.sin (N * φ) / Real.sin φ := by ring
    rw [e3, hsq, one_mul]
  rw [Finset.sum_mul, Finset.sum_congr rfl term, Finset.sum_comm,
    Finset.sum_eq_single_of_mem t (Finset.mem_range.mpr (by omega))
      (fun m hm hmt => sum_cos_mode hN (Finset.mem_range.mp hm) hmt x)]
  have : ∀ k ∈ Finset.range N, Real.cos (((N : ℝ) - 1 - 2 * t) * (1 / 2 * (x - 2 * Real.pi * k / N))) = 1 := by
    intro k _
    have : ((N : ℝ) - 1 - 2 * t) = 0 := by rw [hN]; push_cast; ring
    rw [this, zero_mul, Real.cos_zero]
  rw [Finset.sum_congr rfl this]; simp

theorem den_ne_zero {N t : ℕ} (hN : N = 2 * t + 1) (x : ℝ)
    (hnode : ∀ k < N, Real.sin (1 / 2 * (x - 2 * Real.pi * k / N)) ≠ 0) :
    (∑ k ∈ Finset.range N, 1 / Real.sin (1 / 2 * (x - 2 * Real.pi * k / N)) * (-1) ^ k) ≠ 0 := by
  intro h
  have := den_mul_sin hN x hnode
  rw [h, zero_mul] at this
  have hN' : (N : ℝ) ≠ 0 := by rw [hN]; positivity
  exact hN' this.symm

theorem interp_eq_odd {N : ℕ} (hodd : N % 2 = 1) (f : ℕ → ℝ) (x : ℝ) :
    interp Real.sin Real.tan id Real.pi f N x =
      (∑ k ∈ Finset.range N, 1 / Real.sin (1 / 2 * (x - 2 * Real.pi * k / N)) * ((-1) ^ k * f k)) /
        (∑ k ∈ Finset.range N, 1 / Real.sin (1 / 2 * (x - 2 * Real.pi * k / N)) * (-1) ^ k) := by
  have hne : ¬ N % 2 = 0 := by omega
  rw [interp_eq]; simp only [K_eq, sgn_eq, if_neg hne]

/-- the barycentric denominator of the model in closed form (odd `N`, `x` not a node): `den · sin(N x / 2) = N` -/
theorem den_closed_form {N : ℕ} (hodd : N % 2 = 1) (x : ℝ)
    (hnode : ∀ k < N, Real.sin (1 / 2 * (x - node Real.pi N k)) ≠ 0) :
    sumRange (fun k => kern Real.sin Real.tan id Real.pi N k x * sgn k) N * Real.sin (N * x / 2) = N := by
  have hne : ¬ N % 2 = 0 := by omega
  simp only [node_eq] at hnode
  rw [sumRange_eq]
  have := den_mul_sin (N := N) (t := N / 2) (by omega) x hnode
  simpa only [K_eq, sgn_eq, if_neg hne] using this

/-- hence the denominator hypothesis of `interp_const` holds automatically for odd `N` away from the nodes -/
theorem den_ne_zero_odd {N : ℕ} (hodd : N % 2 = 1) (x : ℝ)
    (hnode : ∀ k < N, Real.sin (1 / 2 * (x - node Real.pi N k)) ≠ 0) :
    sumRange (fun k => kern Real.sin Real.tan id Real.pi N k x * sgn k) N ≠ 0 := by
  intro h
  have := den_closed_form hodd x hnode
  rw [h, zero_mul] at this
  have hN : (N : ℝ) ≠ 0 := by
    have : 0 < N := by omega
    positivity
  exact hN this.symm

theorem interp_const_odd (c : ℝ) {N : ℕ} (hodd : N % 2 = 1) (x : ℝ)
    (hnode : ∀ k < N, Real.sin (1 / 2 * (x - node Real.pi N k)) ≠ 0) :
    interp Real.sin Real.tan id Real.pi (fun _ => c) N x = c :=
  interp_const c N x (den_ne_zero_odd hodd x hnode)

/-- (d) exactness on every resolvable mode with arbitrary phase: odd `N`, `2p < N`, `x` not a node -/
theorem interp_exact_phase {N p : ℕ} (hodd : N % 2 = 1) (hp : 2 * p < N) (a x : ℝ)
    (hnode : ∀ k < N, Real.sin (1 / 2 * (x - node Real.pi N k)) ≠ 0) :
    interp Real.sin Real.tan id Real.pi (fun k => Real.sin (a + p * node Real.pi N k)) N x =
      Real.sin (a + p * x) := by
  simp only [node_eq] at hnode ⊢
  have hN : N = 2 * (N / 2) + 1 := by omega
  rw [interp_eq_odd hodd, div_eq_iff (den_ne_zero hN x hnode)]
  exact exact_num hN (by omega) a x hnode

theorem interp_exact_sin {N p : ℕ} (hodd : N % 2 = 1) (hp : 2 * p < N) (x : ℝ)
    (hnode : ∀ k < N, Real.sin (1 / 2 * (x - node Real.pi N k)) ≠ 0) :
    interp Real.sin Real.tan id Real.pi (fun k => Real.sin (p * node Real.pi N k)) N x = Real.sin (p * x) := by
  have := interp_exact_phase hodd hp 0 x hnode
  simpa only [zero_add] using this

theorem interp_exact_cos {N p : ℕ} (hodd : N % 2 = 1) (hp : 2 * p < N) (x : ℝ)
    (hnode : ∀ k < N, Real.sin (1 / 2 * (x - node Real.pi N k)) ≠ 0) :
    interp Real.sin Real.tan id Real.pi (fun k => Real.cos (p * node Real.pi N k)) N x = Real.cos (p * x) := by
  have h : ∀ y : ℝ, Real.cos y = Real.sin (Real.pi / 2 + y) := fun y => by
    rw [add_comm, Real.sin_add_pi_div_two]
  simp only [h]
  exact interp_exact_phase hodd hp (Real.pi / 2) x hnode

end C20Interp

#print axioms C20Interp.interp_const
#print axioms C20Interp.interp_linear
#print axioms C20Interp.interp_shift
#print axioms C20Interp.interp_shift_node
#print axioms C20Interp.den_closed_form
#print axioms C20Interp.interp_const_odd
#print axioms C20Interp.interp_exact_phase
#print axioms C20Interp.interp_exact_sin
#print axioms C20Interp.interp_exact_cos
