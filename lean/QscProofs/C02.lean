import QscModel.Gen.Sigma
import QscProofs.Tactics
import Mathlib.Algebra.Module.LinearMap.Defs
import Mathlib.Algebra.Module.Pi
import Mathlib.Data.Real.Basic
import Mathlib.LinearAlgebra.Matrix.ToLin
import Mathlib.Tactic.Ring
import Mathlib.Tactic.Linarith
/-!
# C02 – the Jacobian handed to Newton is the exact derivative of the σ-residual

Statements about the **generated** `Gen.Sigma.residual` (from `calculate_r1.py::_residual`), on the discrete-exact
carrier `Fin (n+1) → ℝ` (any grid size `n+1`), with `np.matmul(d_d_varphi, ·)` an arbitrary `ℝ`-linear map `D`,
`o.setAt 0 x v` = `x` with entry 0 replaced by the (broadcast) scalar `v`, `o.elemAt 0 x` = entry 0 broadcast.

* `residual_eq`     : entrywise reading of the generated residual.
* `jacobian_exact`  : `residual (x + d) = residual x + jac x d + rem x d` for **every** state `x` and increment `d`,
  with `jac` the action of the matrix built by `_jacobian` (linear in `d`: `jac_add`, `jac_smul`) and `rem` explicit and
  of order ≥ 2 in `d` (a quadratic plus a cubic form: `rem_quadratic`; bound `rem_bound`).
* `jacMat_mulVec`   : for `D = mulVec Dm`, the matrix assembled exactly as in `_jacobian` (copy of `d_d_varphi`,
  diagonal `+= (ι + helicity·nfp)·2σ_j`, then column 0 overwritten by `ees² + 1 + σ²`) acts as `jac`.
* `residual_slot0`  : entry 0 of the state enters only as `ι` (affinely), never through `σ`.
-/
namespace C02
variable {n : ℕ}
abbrev Arr (n : ℕ) := Fin (n+1) → ℝ

/-- the `Ops` instance of the discrete carrier: `D` linear, `setAt`/`elemAt` the numpy slot operations;
all other fields are taken from an arbitrary `base` (they do not occur in the residual) -/
def ops (D : Arr n →ₗ[ℝ] Arr n) (base : Ops (Arr n)) : Ops (Arr n) :=
  { base with
    D := fun x => D x
    setAt := fun k x v => Function.update x (Fin.ofNat (n+1) k) (v (Fin.ofNat (n+1) k))
    elemAt := fun k x => fun _ => x (Fin.ofNat (n+1) k) }

/-- the object attributes read by `_residual`: scalars and the two arrays `etabar²/κ²`, `torsion` -/
structure Par (n : ℕ) where
  helicity : ℝ
  nfp : ℝ
  sigma0 : ℝ
  spsi : ℝ
  I2 : ℝ
  B0 : ℝ
  G0 : ℝ
  ees : Arr n
  torsion : Arr n

/-- inputs of the generated definition: scalars as constant arrays -/
def inp (P : Par n) (x : Arr n) : Gen.Sigma.In (Arr n) :=
  { B0 := fun _ => P.B0, G0 := fun _ => P.G0, I2 := fun _ => P.I2,
    etabar_squared_over_curvature_squared := P.ees, helicity := fun _ => P.helicity, nfp := fun _ => P.nfp,
    sigma0 := fun _ => P.sigma0, spsi := fun _ => P.spsi, torsion := P.torsion, x := x }

/-- **the generated residual** on this carrier -/
noncomputable def residual (D : Arr n →ₗ[ℝ] Arr n) (base : Ops (Arr n)) (P : Par n) (x : Arr n) : Arr n :=
  Gen.Sigma.residual (ops D base) (inp P x)

/-- `sigma = np.copy(x); sigma[0] = sigma0` -/
def sig (sigma0 : ℝ) (x : Arr n) : Arr n := Function.update x 0 sigma0
/-- the increment with slot 0 zeroed -/
def P0 (d : Arr n) : Arr n := Function.update d 0 0
/-- the inhomogeneous term `2·ees·(−spsi·τ + I2/B0)·G0/B0` -/
noncomputable def rhs (P : Par n) : Arr n := fun j => 2 * P.ees j * (-P.spsi * P.torsion j + P.I2 / P.B0) * P.G0 / P.B0

/-- entrywise reading of the generated residual: `D σ + (ι + N)(ees² + 1 + σ²) − rhs`, `ι = x[0]`,
`N = helicity·nfp`, `σ = sig sigma0 x` -/
theorem residual_eq (D : Arr n →ₗ[ℝ] Arr n) (base : Ops (Arr n)) (P : Par n) (x : Arr n) (j : Fin (n+1)) :
    residual D base P x j
      = D (sig P.sigma0 x) j
        + (x 0 + P.helicity * P.nfp) * (P.ees j * P.ees j + 1 + sig P.sigma0 x j * sig P.sigma0 x j) - rhs P j := by
  have h0 : Fin.ofNat (n+1) 0 = 0 := rfl
  simp only [residual, Gen.Sigma.residual, qsc_local, ops, inp, sig, rhs, h0, Pi.add_apply, Pi.sub_apply, Pi.mul_apply, Pi.div_apply,
    Pi.neg_apply, Pi.ofNat_apply, Nat.cast_ofNat, Nat.cast_one] <;> ring_congr

/-- `_jacobian` applied to an increment `d`: `(D + diag((ι+N)·2σ))` on the slots ≥ 1, column 0 = `ees² + 1 + σ²` -/
def jac (D : Arr n →ₗ[ℝ] Arr n) (P : Par n) (x d : Arr n) : Arr n :=
  fun j => D (P0 d) j + (x 0 + P.helicity * P.nfp) * 2 * sig P.sigma0 x j * P0 d j
           + d 0 * (P.ees j * P.ees j + 1 + sig P.sigma0 x j * sig P.sigma0 x j)

/-- explicit remainder: a homogeneous quadratic form in `d` (first two terms) plus a homogeneous cubic form
(`dι·dσ²`, last term) -/
def rem (P : Par n) (x d : Arr n) : Arr n :=
  fun j => d 0 * (2 * sig P.sigma0 x j * P0 d j) + (x 0 + P.helicity * P.nfp) * (P0 d j * P0 d j)
           + d 0 * (P0 d j * P0 d j)

theorem sig_add (sigma0 : ℝ) (x d : Arr n) : sig sigma0 (x + d) = sig sigma0 x + P0 d := by
  funext j
  by_cases h : j = 0
  · subst h; simp [sig, P0]
  · simp [sig, P0, Function.update_of_ne h]

/-- **Jacobian exactness**: for every state `x`, increment `d`, grid size and linear `D` -/
theorem jacobian_exact (D : Arr n →ₗ[ℝ] Arr n) (base : Ops (Arr n)) (P : Par n) (x d : Arr n) :
    residual D base P (x + d) = residual D base P x + jac D P x d + rem P x d := by
  funext j
  simp only [Pi.add_apply, residual_eq, jac, rem, sig_add, map_add]
  ring

/-- `jac` is linear in the increment … -/
theorem jac_add (D : Arr n →ₗ[ℝ] Arr n) (P : Par n) (x d e : Arr n) :
    jac D P x (d + e) = jac D P x d + jac D P x e := by
  have hP : P0 (d + e) = P0 d + P0 e := by
    funext j
    by_cases h : j = 0
    · subst h; simp [P0]
    · simp [P0, Function.update_of_ne h]
  funext j
  simp only [jac, hP, map_add, Pi.add_apply]
  ring

theorem jac_smul (D : Arr n →ₗ[ℝ] Arr n) (P : Par n) (x d : Arr n) (c : ℝ) :
    jac D P x (c • d) = c • jac D P x d := by
  have hP : P0 (c • d) = c • P0 d := by
    funext j
    by_cases h : j = 0
    · subst h; simp [P0]
    · simp [P0, Function.update_of_ne h]
  funext j
  simp only [jac, hP, map_smul, Pi.smul_apply, smul_eq_mul]
  ring

/-- … and `rem` has no constant or linear part: under `d ↦ c·d` it scales as `c²·(quadratic form) + c³·(cubic form)` -/
theorem rem_quadratic (P : Par n) (x d : Arr n) (c : ℝ) (j : Fin (n+1)) :
    rem P x (c • d) j
      = c ^ 2 * (d 0 * (2 * sig P.sigma0 x j * P0 d j) + (x 0 + P.helicity * P.nfp) * (P0 d j * P0 d j))
        + c ^ 3 * (d 0 * (P0 d j * P0 d j)) := by
  have hP : P0 (c • d) = c • P0 d := by
    funext j
    by_cases h : j = 0
    · subst h; simp [P0]
    · simp [P0, Function.update_of_ne h]
  simp only [rem, hP, Pi.smul_apply, smul_eq_mul]
  ring

/-- the remainder is bounded by a quadratic: `|rem_j| ≤ (2|σ_j| + |ι + N| + |d₀|)·‖d‖∞²` whenever `|d_k| ≤ ε` -/
theorem rem_bound (P : Par n) (x d : Arr n) (ε : ℝ) (hd : ∀ k, |d k| ≤ ε) (j : Fin (n+1)) :
    |rem P x d j| ≤ (2 * |sig P.sigma0 x j| + |x 0 + P.helicity * P.nfp| + ε) * ε ^ 2 := by
  have hε : 0 ≤ ε := le_trans (abs_nonneg _) (hd 0)
  have hP : |P0 d j| ≤ ε := by
    by_cases h : j = 0
    · subst h; simp [P0, hε]
    · simp only [P0, Function.update_of_ne h]; exact hd j
  have h0 := hd 0
  set a := |d 0|
  set b := |P0 d j|
  set s := |sig P.sigma0 x j|
  set m := |x 0 + P.helicity * P.nfp|
  have ha : 0 ≤ a := abs_nonneg _
  have hb : 0 ≤ b := abs_nonneg _
  have hs : 0 ≤ s := abs_nonneg _
  have hm : 0 ≤ m := abs_nonneg _
  have e1 : |d 0 * (2 * sig P.sigma0 x j * P0 d j)| = 2 * s * (a * b) := by
    rw [abs_mul, abs_mul, abs_mul, abs_two]; ring
  have e2 : |(x 0 + P.helicity * P.nfp) * (P0 d j * P0 d j)| = m * (b * b) := by
    rw [abs_mul, abs_mul]
  have e3 : |d 0 * (P0 d j * P0 d j)| = a * (b * b) := by
    rw [abs_mul, abs_mul]
  have hab : a * b ≤ ε * ε := mul_le_mul h0 hP hb hε
  have hbb : b * b ≤ ε * ε := mul_le_mul hP hP hb hε
  have habb : a * (b * b) ≤ ε * (ε * ε) := mul_le_mul h0 hbb (mul_nonneg hb hb) hε
  calc |rem P x d j|
      ≤ |d 0 * (2 * sig P.sigma0 x j * P0 d j)| + |(x 0 + P.helicity * P.nfp) * (P0 d j * P0 d j)|
          + |d 0 * (P0 d j * P0 d j)| := by
        simp only [rem]; exact abs_add_three _ _ _
    _ = 2 * s * (a * b) + m * (b * b) + a * (b * b) := by rw [e1, e2, e3]
    _ ≤ 2 * s * (ε * ε) + m * (ε * ε) + ε * (ε * ε) := by
        have := mul_le_mul_of_nonneg_left hab (by positivity : 0 ≤ 2 * s)
        have := mul_le_mul_of_nonneg_left hbb hm
        linarith
    _ = (2 * s + m + ε) * ε ^ 2 := by ring

/-! ### the matrix exactly as `_jacobian` assembles it -/

/-- `jac = np.copy(d_d_varphi); jac[j,j] += (iota + helicity*nfp)*2*sigma[j]; jac[:,0] = ees*ees + 1 + sigma*sigma` -/
def jacMat (Dm : Matrix (Fin (n+1)) (Fin (n+1)) ℝ) (P : Par n) (x : Arr n) : Matrix (Fin (n+1)) (Fin (n+1)) ℝ :=
  fun j k =>
    if k = 0 then P.ees j * P.ees j + 1 + sig P.sigma0 x j * sig P.sigma0 x j
    else Dm j k + (if j = k then (x 0 + P.helicity * P.nfp) * 2 * sig P.sigma0 x j else 0)

theorem jacMat_mulVec (Dm : Matrix (Fin (n+1)) (Fin (n+1)) ℝ) (P : Par n) (x d : Arr n) :
    (jacMat Dm P x).mulVec d = jac Dm.mulVecLin P x d := by
  funext j
  simp only [jac, Matrix.mulVecLin_apply, Matrix.mulVec, dotProduct]
  have key : ∀ k, jacMat Dm P x j k * d k
      = Dm j k * P0 d k + (if j = k then (x 0 + P.helicity * P.nfp) * 2 * sig P.sigma0 x j * P0 d j else 0)
        + (if k = 0 then d 0 * (P.ees j * P.ees j + 1 + sig P.sigma0 x j * sig P.sigma0 x j) else 0) := by
    intro k
    by_cases hk : k = 0
    · subst hk
      simp only [jacMat, P0, if_true, Function.update_self, mul_zero]
      by_cases hj : j = 0
      · subst hj; simp only [if_true, Function.update_self, mul_zero]; ring
      · simp only [if_neg hj]; ring
    · simp only [jacMat, P0, if_neg hk, Function.update_of_ne hk, add_zero]
      by_cases hj : j = k
      · subst hj; simp only [if_true, Function.update_of_ne hk]; ring
      · simp only [if_neg hj]; ring
  rw [Finset.sum_congr rfl (fun k _ => key k)]
  simp only [Finset.sum_add_distrib, Finset.sum_ite_eq, Finset.sum_ite_eq', Finset.mem_univ, if_true]

/-- exactness for the matrix of `_jacobian`: `residual(x + d) = residual x + J(x)·d + rem` with `D = Dm·` -/
theorem jacobian_matrix_exact (Dm : Matrix (Fin (n+1)) (Fin (n+1)) ℝ) (base : Ops (Arr n)) (P : Par n) (x d : Arr n) :
    residual Dm.mulVecLin base P (x + d)
      = residual Dm.mulVecLin base P x + (jacMat Dm P x).mulVec d + rem P x d := by
  rw [jacMat_mulVec, jacobian_exact]

/-! ### slot-0 bookkeeping -/

/-- `σ` never sees entry 0 of the state: `sigma[0] = sigma0` whatever `x[0]` is -/
theorem sig_slot0 (sigma0 : ℝ) (x : Arr n) (v : ℝ) :
    sig sigma0 (Function.update x 0 v) = sig sigma0 x ∧ sig sigma0 x 0 = sigma0 := by
  simp [sig]

/-- entry 0 of the state enters the residual only as `ι`, affinely: replacing `x[0]` by `v` gives
`D σ + (v + N)(ees² + 1 + σ²) − rhs` with the **same** `σ = sig sigma0 x` -/
theorem residual_slot0 (D : Arr n →ₗ[ℝ] Arr n) (base : Ops (Arr n)) (P : Par n) (x : Arr n) (v : ℝ) (j : Fin (n+1)) :
    residual D base P (Function.update x 0 v) j
      = D (sig P.sigma0 x) j
        + (v + P.helicity * P.nfp) * (P.ees j * P.ees j + 1 + sig P.sigma0 x j * sig P.sigma0 x j) - rhs P j := by
  rw [residual_eq, (sig_slot0 P.sigma0 x v).1, Function.update_self]

/-- two states that agree away from slot 0 have residuals differing by `(x₀ − y₀)(ees² + 1 + σ²)` -/
theorem residual_slot0_diff (D : Arr n →ₗ[ℝ] Arr n) (base : Ops (Arr n)) (P : Par n) (x y : Arr n)
    (h : ∀ k, k ≠ 0 → x k = y k) (j : Fin (n+1)) :
    residual D base P x j - residual D base P y j
      = (x 0 - y 0) * (P.ees j * P.ees j + 1 + sig P.sigma0 y j * sig P.sigma0 y j) := by
  have hs : sig P.sigma0 x = sig P.sigma0 y := by
    funext k
    by_cases hk : k = 0
    · subst hk; simp [sig]
    · simp only [sig, Function.update_of_ne hk]; exact h k hk
  rw [residual_eq, residual_eq, hs]
  ring

#print axioms residual_eq
#print axioms jacobian_exact
#print axioms jac_add
#print axioms jac_smul
#print axioms rem_quadratic
#print axioms rem_bound
#print axioms jacMat_mulVec
#print axioms jacobian_matrix_exact
#print axioms residual_slot0
#print axioms residual_slot0_diff
end C02
