import QscModel.Gen.Axis
import QscModel.Gen.GradB
import QscModel.Gen.GradBCart
import QscProofs.C03
import QscProofs.C09Frob
import Mathlib.Analysis.SpecialFunctions.Sqrt
import Mathlib.Analysis.SpecialFunctions.Trigonometric.Basic
import Mathlib.Tactic.Ring
import Mathlib.Tactic.Linarith
import Mathlib.Tactic.NormNum
import Mathlib.Tactic.LinearCombination
/-!
# C09 (axis composition) – `‖∇B‖²` is basis-free for the frame **computed by `init_axis`**

`C09Frob` proves the basis independence of the Frobenius norm / trace of the grad-B tensor under the hypothesis
`C09Frob.FrameOrthonormal i` on the *inputs* of `calculate_grad_B_tensor`.  In the Python object those inputs are
columns 0, 1, 2 (= `R`, `φ`, `Z`) of `self.tangent_cylindrical`, `self.normal_cylindrical`,
`self.binormal_cylindrical`, computed by `init_axis`.  `C03.frame_orthonormal_rh` proves that the generated frame
`Gen.Axis.*_cylindrical_k` is orthonormal.  This file composes the two: the hypothesis `FrameOrthonormal` is replaced
by the hypotheses of `C03.frame_orthonormal_rh` on the axis inputs (`|r'|² > 0`, curvature `> 0`, `o.sqrt = Real.sqrt`).

* `wire`      : the nine frame fields, `curvature`, `torsion` of `Gen.GradB.In ℝ` are the generated `Gen.Axis` values;
                every other field is taken from an arbitrary `j : Gen.GradB.In ℝ`.
* `wireFull`  : additionally `X1c`, `d_l_d_varphi` (generated `Gen.Axis` values) and `B0`, `sG`, `spsi` (axis inputs),
                i.e. everything `calculate_grad_B_tensor` reads that `init_axis` produces.
* `frame_of_axis`, `frame_of_axis'` (input-only hypotheses), `frame_of_axis_full`.
* `frob_cyl_eq_frenet_axis`, `trace_cyl_eq_frenet_axis`, `L_gradB_basis_free_axis`, `frob_cart_eq_frenet_axis`
  (+ `_full` variants).
* non-vacuity: the unit circle `R0 = 1`, all derivatives `0` satisfies both hypotheses, for a concrete `Ops ℝ`.
-/
namespace C09Axis
set_option maxHeartbeats 1000000

/-- Wiring of `init_axis` outputs into the inputs of `calculate_grad_B_tensor`: columns `0, 1, 2` of
`tangent_cylindrical`, `normal_cylindrical`, `binormal_cylindrical` are the `R`, `φ`, `z` components; `curvature` and
`torsion` are the generated ones.  All remaining fields come from `j`. -/
noncomputable def wire (o : Ops ℝ) (ia : Gen.Axis.In ℝ) (j : Gen.GradB.In ℝ) : Gen.GradB.In ℝ :=
  { j with
    tangent_R := Gen.Axis.tangent_cylindrical_0 o ia
    tangent_phi := Gen.Axis.tangent_cylindrical_1 o ia
    tangent_z := Gen.Axis.tangent_cylindrical_2 o ia
    normal_R := Gen.Axis.normal_cylindrical_0 o ia
    normal_phi := Gen.Axis.normal_cylindrical_1 o ia
    normal_z := Gen.Axis.normal_cylindrical_2 o ia
    binormal_R := Gen.Axis.binormal_cylindrical_0 o ia
    binormal_phi := Gen.Axis.binormal_cylindrical_1 o ia
    binormal_z := Gen.Axis.binormal_cylindrical_2 o ia
    curvature := Gen.Axis.curvature o ia
    torsion := Gen.Axis.torsion o ia }

/-- `wire` plus every other quantity that `calculate_grad_B_tensor` reads from the object and `init_axis` sets:
`X1c = etabar/curvature`, `d_l_d_varphi`, `B0`, `sG`, `spsi`.  Only `Y1s, Y1c`, the three `varphi`-derivatives and
`iotaN` (set by `solve_sigma_equation` / `_determine_helicity` / `r1_diagnostics`) remain free. -/
noncomputable def wireFull (o : Ops ℝ) (ia : Gen.Axis.In ℝ) (j : Gen.GradB.In ℝ) : Gen.GradB.In ℝ :=
  { wire o ia j with
    X1c := Gen.Axis.X1c o ia
    d_l_d_varphi := Gen.Axis.d_l_d_varphi o ia
    B0 := ia.B0
    sG := ia.sG
    spsi := ia.spsi }

/-- the index convention, stated explicitly: column 0 ↦ `R`, column 1 ↦ `φ`, column 2 ↦ `z` -/
theorem wire_fields (o : Ops ℝ) (ia : Gen.Axis.In ℝ) (j : Gen.GradB.In ℝ) :
    ((wire o ia j).tangent_R = Gen.Axis.tangent_cylindrical_0 o ia ∧
     (wire o ia j).tangent_phi = Gen.Axis.tangent_cylindrical_1 o ia ∧
     (wire o ia j).tangent_z = Gen.Axis.tangent_cylindrical_2 o ia) ∧
    ((wire o ia j).normal_R = Gen.Axis.normal_cylindrical_0 o ia ∧
     (wire o ia j).normal_phi = Gen.Axis.normal_cylindrical_1 o ia ∧
     (wire o ia j).normal_z = Gen.Axis.normal_cylindrical_2 o ia) ∧
    ((wire o ia j).binormal_R = Gen.Axis.binormal_cylindrical_0 o ia ∧
     (wire o ia j).binormal_phi = Gen.Axis.binormal_cylindrical_1 o ia ∧
     (wire o ia j).binormal_z = Gen.Axis.binormal_cylindrical_2 o ia) ∧
    ((wire o ia j).curvature = Gen.Axis.curvature o ia ∧ (wire o ia j).torsion = Gen.Axis.torsion o ia) ∧
    ((wire o ia j).B0 = j.B0 ∧ (wire o ia j).X1c = j.X1c ∧ (wire o ia j).Y1c = j.Y1c ∧ (wire o ia j).Y1s = j.Y1s ∧
     (wire o ia j).d_X1c_d_varphi = j.d_X1c_d_varphi ∧ (wire o ia j).d_Y1c_d_varphi = j.d_Y1c_d_varphi ∧
     (wire o ia j).d_Y1s_d_varphi = j.d_Y1s_d_varphi ∧ (wire o ia j).d_l_d_varphi = j.d_l_d_varphi ∧
     (wire o ia j).iotaN = j.iotaN ∧ (wire o ia j).sG = j.sG ∧ (wire o ia j).spsi = j.spsi) :=
  ⟨⟨rfl, rfl, rfl⟩, ⟨rfl, rfl, rfl⟩, ⟨rfl, rfl, rfl⟩, ⟨rfl, rfl⟩, rfl, rfl, rfl, rfl, rfl, rfl, rfl, rfl, rfl, rfl, rfl⟩

/-- `FrameOrthonormal` only looks at the nine frame fields -/
theorem frameOrthonormal_congr (i i' : Gen.GradB.In ℝ)
    (hn : i'.normal_R = i.normal_R ∧ i'.normal_phi = i.normal_phi ∧ i'.normal_z = i.normal_z)
    (hb : i'.binormal_R = i.binormal_R ∧ i'.binormal_phi = i.binormal_phi ∧ i'.binormal_z = i.binormal_z)
    (ht : i'.tangent_R = i.tangent_R ∧ i'.tangent_phi = i.tangent_phi ∧ i'.tangent_z = i.tangent_z)
    (h : C09Frob.FrameOrthonormal i) : C09Frob.FrameOrthonormal i' := by
  obtain ⟨n0, n1, n2⟩ := hn
  obtain ⟨b0, b1, b2⟩ := hb
  obtain ⟨t0, t1, t2⟩ := ht
  constructor <;> simp only [n0, n1, n2, b0, b1, b2, t0, t1, t2]
  exacts [h.nn, h.nb, h.nt, h.bb, h.bt, h.tt]

/-- **the frame computed by `init_axis` satisfies the hypothesis of `C09Frob`** (same hypotheses as
`C03.frame_orthonormal_rh`) -/
theorem frame_of_axis (o : Ops ℝ) (ia : Gen.Axis.In ℝ) (j : Gen.GradB.In ℝ)
    (hsqrt : ∀ x, o.sqrt x = Real.sqrt x) (hl : 0 < C03.speedSq ia) (hk : 0 < Gen.Axis.curvature o ia) :
    C09Frob.FrameOrthonormal (wire o ia j) := by
  obtain ⟨⟨ht, hn, hb⟩, ⟨htn, htb, hnb⟩, -, -⟩ := C03.frame_orthonormal_rh o ia hsqrt hl hk
  constructor
  · show Gen.Axis.normal_cylindrical_0 o ia * Gen.Axis.normal_cylindrical_0 o ia
      + Gen.Axis.normal_cylindrical_1 o ia * Gen.Axis.normal_cylindrical_1 o ia
      + Gen.Axis.normal_cylindrical_2 o ia * Gen.Axis.normal_cylindrical_2 o ia = 1
    exact hn
  · show Gen.Axis.normal_cylindrical_0 o ia * Gen.Axis.binormal_cylindrical_0 o ia
      + Gen.Axis.normal_cylindrical_1 o ia * Gen.Axis.binormal_cylindrical_1 o ia
      + Gen.Axis.normal_cylindrical_2 o ia * Gen.Axis.binormal_cylindrical_2 o ia = 0
    exact hnb
  · show Gen.Axis.normal_cylindrical_0 o ia * Gen.Axis.tangent_cylindrical_0 o ia
      + Gen.Axis.normal_cylindrical_1 o ia * Gen.Axis.tangent_cylindrical_1 o ia
      + Gen.Axis.normal_cylindrical_2 o ia * Gen.Axis.tangent_cylindrical_2 o ia = 0
    linear_combination htn
  · show Gen.Axis.binormal_cylindrical_0 o ia * Gen.Axis.binormal_cylindrical_0 o ia
      + Gen.Axis.binormal_cylindrical_1 o ia * Gen.Axis.binormal_cylindrical_1 o ia
      + Gen.Axis.binormal_cylindrical_2 o ia * Gen.Axis.binormal_cylindrical_2 o ia = 1
    exact hb
  · show Gen.Axis.binormal_cylindrical_0 o ia * Gen.Axis.tangent_cylindrical_0 o ia
      + Gen.Axis.binormal_cylindrical_1 o ia * Gen.Axis.tangent_cylindrical_1 o ia
      + Gen.Axis.binormal_cylindrical_2 o ia * Gen.Axis.tangent_cylindrical_2 o ia = 0
    linear_combination htb
  · show Gen.Axis.tangent_cylindrical_0 o ia * Gen.Axis.tangent_cylindrical_0 o ia
      + Gen.Axis.tangent_cylindrical_1 o ia * Gen.Axis.tangent_cylindrical_1 o ia
      + Gen.Axis.tangent_cylindrical_2 o ia * Gen.Axis.tangent_cylindrical_2 o ia = 1
    exact ht

/-- the same with hypotheses on the axis *inputs* only: `|r'|² > 0` and `|r' × r''|² > 0` -/
theorem frame_of_axis' (o : Ops ℝ) (ia : Gen.Axis.In ℝ) (j : Gen.GradB.In ℝ)
    (hsqrt : ∀ x, o.sqrt x = Real.sqrt x) (hl : 0 < C03.speedSq ia)
    (hc : 0 < C03.crossSq ia.R0 ia.R0p ia.R0pp ia.Z0p ia.Z0pp) :
    C09Frob.FrameOrthonormal (wire o ia j) :=
  frame_of_axis o ia j hsqrt hl ((C03.curvature_pos_iff o ia hsqrt hl).mpr hc)

/-- the fully wired input also has an orthonormal frame -/
theorem frame_of_axis_full (o : Ops ℝ) (ia : Gen.Axis.In ℝ) (j : Gen.GradB.In ℝ)
    (hsqrt : ∀ x, o.sqrt x = Real.sqrt x) (hl : 0 < C03.speedSq ia) (hk : 0 < Gen.Axis.curvature o ia) :
    C09Frob.FrameOrthonormal (wireFull o ia j) :=
  frameOrthonormal_congr (wire o ia j) (wireFull o ia j) ⟨rfl, rfl, rfl⟩ ⟨rfl, rfl, rfl⟩ ⟨rfl, rfl, rfl⟩
    (frame_of_axis o ia j hsqrt hl hk)

/-! ## Corollaries: no orthonormality hypothesis -/
section cor
open Gen.GradB

/-- `‖∇B‖²` in the cylindrical basis equals `grad_B_colon_grad_B`, for the frame computed by `init_axis` -/
theorem frob_cyl_eq_frenet_axis (o : Ops ℝ) (ia : Gen.Axis.In ℝ) (j : Gen.GradB.In ℝ)
    (hsqrt : ∀ x, o.sqrt x = Real.sqrt x) (hl : 0 < C03.speedSq ia) (hk : 0 < Gen.Axis.curvature o ia) :
    (grad_B_tensor_cylindrical_00 o (wire o ia j)) ^ 2 + (grad_B_tensor_cylindrical_01 o (wire o ia j)) ^ 2
      + (grad_B_tensor_cylindrical_02 o (wire o ia j)) ^ 2 + (grad_B_tensor_cylindrical_10 o (wire o ia j)) ^ 2
      + (grad_B_tensor_cylindrical_11 o (wire o ia j)) ^ 2 + (grad_B_tensor_cylindrical_12 o (wire o ia j)) ^ 2
      + (grad_B_tensor_cylindrical_20 o (wire o ia j)) ^ 2 + (grad_B_tensor_cylindrical_21 o (wire o ia j)) ^ 2
      + (grad_B_tensor_cylindrical_22 o (wire o ia j)) ^ 2
    = grad_B_colon_grad_B o (wire o ia j) :=
  C09Frob.frob_cyl_eq_frenet o (wire o ia j) (frame_of_axis o ia j hsqrt hl hk)

/-- trace of the cylindrical tensor = `nn + bb + tt`, for the frame computed by `init_axis` -/
theorem trace_cyl_eq_frenet_axis (o : Ops ℝ) (ia : Gen.Axis.In ℝ) (j : Gen.GradB.In ℝ)
    (hsqrt : ∀ x, o.sqrt x = Real.sqrt x) (hl : 0 < C03.speedSq ia) (hk : 0 < Gen.Axis.curvature o ia) :
    grad_B_tensor_cylindrical_00 o (wire o ia j) + grad_B_tensor_cylindrical_11 o (wire o ia j)
      + grad_B_tensor_cylindrical_22 o (wire o ia j)
    = grad_B_tensor_nn o (wire o ia j) + grad_B_tensor_bb o (wire o ia j) + grad_B_tensor_tt o (wire o ia j) :=
  C09Frob.trace_cyl_eq_frenet o (wire o ia j) (frame_of_axis o ia j hsqrt hl hk)

/-- `L_grad_B = B0·sqrt(2/‖∇B‖²_cyl)` (with the real square root), for the frame computed by `init_axis` -/
theorem L_gradB_basis_free_axis (o : Ops ℝ) (ia : Gen.Axis.In ℝ) (j : Gen.GradB.In ℝ)
    (hsqrt : ∀ x, o.sqrt x = Real.sqrt x) (hl : 0 < C03.speedSq ia) (hk : 0 < Gen.Axis.curvature o ia) :
    L_grad_B o (wire o ia j) = j.B0 * Real.sqrt (2 / (
      (grad_B_tensor_cylindrical_00 o (wire o ia j)) ^ 2 + (grad_B_tensor_cylindrical_01 o (wire o ia j)) ^ 2
      + (grad_B_tensor_cylindrical_02 o (wire o ia j)) ^ 2 + (grad_B_tensor_cylindrical_10 o (wire o ia j)) ^ 2
      + (grad_B_tensor_cylindrical_11 o (wire o ia j)) ^ 2 + (grad_B_tensor_cylindrical_12 o (wire o ia j)) ^ 2
      + (grad_B_tensor_cylindrical_20 o (wire o ia j)) ^ 2 + (grad_B_tensor_cylindrical_21 o (wire o ia j)) ^ 2
      + (grad_B_tensor_cylindrical_22 o (wire o ia j)) ^ 2)) := by
  rw [C09Frob.L_gradB_basis_free o (wire o ia j) (frame_of_axis o ia j hsqrt hl hk), hsqrt]
  rfl

/-- all three bases: the Cartesian sum of squares (at any toroidal angle `phi`) of the tensor built from the
generated cylindrical components equals the Frenet `grad_B_colon_grad_B`, for the frame computed by `init_axis`.
`cos² + sin² = 1` is discharged from `o.cos = Real.cos`, `o.sin = Real.sin`. -/
theorem frob_cart_eq_frenet_axis (o : Ops ℝ) (ia : Gen.Axis.In ℝ) (j : Gen.GradB.In ℝ) (phi : ℝ)
    (hsqrt : ∀ x, o.sqrt x = Real.sqrt x) (hcos : ∀ x, o.cos x = Real.cos x) (hsin : ∀ x, o.sin x = Real.sin x)
    (hl : 0 < C03.speedSq ia) (hk : 0 < Gen.Axis.curvature o ia) :
    (Gen.GradBCart.c00 o (C09Frob.toCart o (wire o ia j) phi)) ^ 2 + (Gen.GradBCart.c01 o (C09Frob.toCart o (wire o ia j) phi)) ^ 2
      + (Gen.GradBCart.c02 o (C09Frob.toCart o (wire o ia j) phi)) ^ 2 + (Gen.GradBCart.c10 o (C09Frob.toCart o (wire o ia j) phi)) ^ 2
      + (Gen.GradBCart.c11 o (C09Frob.toCart o (wire o ia j) phi)) ^ 2 + (Gen.GradBCart.c12 o (C09Frob.toCart o (wire o ia j) phi)) ^ 2
      + (Gen.GradBCart.c20 o (C09Frob.toCart o (wire o ia j) phi)) ^ 2 + (Gen.GradBCart.c21 o (C09Frob.toCart o (wire o ia j) phi)) ^ 2
      + (Gen.GradBCart.c22 o (C09Frob.toCart o (wire o ia j) phi)) ^ 2
    = grad_B_colon_grad_B o (wire o ia j) :=
  C09Frob.frob_cart_eq_frenet o (wire o ia j) phi (frame_of_axis o ia j hsqrt hl hk)
    (by rw [hcos, hsin]; exact Real.cos_sq_add_sin_sq phi)

/-- with `phi` the axis grid angle `Gen.Axis.phi o ia` itself (the value `grad_B_tensor_cartesian` uses) -/
theorem frob_cart_eq_frenet_axis_phi (o : Ops ℝ) (ia : Gen.Axis.In ℝ) (j : Gen.GradB.In ℝ)
    (hsqrt : ∀ x, o.sqrt x = Real.sqrt x) (hcos : ∀ x, o.cos x = Real.cos x) (hsin : ∀ x, o.sin x = Real.sin x)
    (hl : 0 < C03.speedSq ia) (hk : 0 < Gen.Axis.curvature o ia) :
    let c := C09Frob.toCart o (wire o ia j) (Gen.Axis.phi o ia)
    (Gen.GradBCart.c00 o c) ^ 2 + (Gen.GradBCart.c01 o c) ^ 2 + (Gen.GradBCart.c02 o c) ^ 2
      + (Gen.GradBCart.c10 o c) ^ 2 + (Gen.GradBCart.c11 o c) ^ 2 + (Gen.GradBCart.c12 o c) ^ 2
      + (Gen.GradBCart.c20 o c) ^ 2 + (Gen.GradBCart.c21 o c) ^ 2 + (Gen.GradBCart.c22 o c) ^ 2
    = grad_B_colon_grad_B o (wire o ia j) :=
  frob_cart_eq_frenet_axis o ia j (Gen.Axis.phi o ia) hsqrt hcos hsin hl hk

/-! ### the same for the fully wired input (`X1c`, `d_l_d_varphi`, `B0`, `sG`, `spsi` from `init_axis` too) -/

theorem frob_cyl_eq_frenet_axis_full (o : Ops ℝ) (ia : Gen.Axis.In ℝ) (j : Gen.GradB.In ℝ)
    (hsqrt : ∀ x, o.sqrt x = Real.sqrt x) (hl : 0 < C03.speedSq ia) (hk : 0 < Gen.Axis.curvature o ia) :
    (grad_B_tensor_cylindrical_00 o (wireFull o ia j)) ^ 2 + (grad_B_tensor_cylindrical_01 o (wireFull o ia j)) ^ 2
      + (grad_B_tensor_cylindrical_02 o (wireFull o ia j)) ^ 2 + (grad_B_tensor_cylindrical_10 o (wireFull o ia j)) ^ 2
      + (grad_B_tensor_cylindrical_11 o (wireFull o ia j)) ^ 2 + (grad_B_tensor_cylindrical_12 o (wireFull o ia j)) ^ 2
      + (grad_B_tensor_cylindrical_20 o (wireFull o ia j)) ^ 2 + (grad_B_tensor_cylindrical_21 o (wireFull o ia j)) ^ 2
      + (grad_B_tensor_cylindrical_22 o (wireFull o ia j)) ^ 2
    = grad_B_colon_grad_B o (wireFull o ia j) :=
  C09Frob.frob_cyl_eq_frenet o (wireFull o ia j) (frame_of_axis_full o ia j hsqrt hl hk)

theorem trace_cyl_eq_frenet_axis_full (o : Ops ℝ) (ia : Gen.Axis.In ℝ) (j : Gen.GradB.In ℝ)
    (hsqrt : ∀ x, o.sqrt x = Real.sqrt x) (hl : 0 < C03.speedSq ia) (hk : 0 < Gen.Axis.curvature o ia) :
    grad_B_tensor_cylindrical_00 o (wireFull o ia j) + grad_B_tensor_cylindrical_11 o (wireFull o ia j)
      + grad_B_tensor_cylindrical_22 o (wireFull o ia j)
    = grad_B_tensor_nn o (wireFull o ia j) + grad_B_tensor_bb o (wireFull o ia j)
      + grad_B_tensor_tt o (wireFull o ia j) :=
  C09Frob.trace_cyl_eq_frenet o (wireFull o ia j) (frame_of_axis_full o ia j hsqrt hl hk)

theorem L_gradB_basis_free_axis_full (o : Ops ℝ) (ia : Gen.Axis.In ℝ) (j : Gen.GradB.In ℝ)
    (hsqrt : ∀ x, o.sqrt x = Real.sqrt x) (hl : 0 < C03.speedSq ia) (hk : 0 < Gen.Axis.curvature o ia) :
    L_grad_B o (wireFull o ia j) = ia.B0 * Real.sqrt (2 / (
      (grad_B_tensor_cylindrical_00 o (wireFull o ia j)) ^ 2 + (grad_B_tensor_cylindrical_01 o (wireFull o ia j)) ^ 2
      + (grad_B_tensor_cylindrical_02 o (wireFull o ia j)) ^ 2 + (grad_B_tensor_cylindrical_10 o (wireFull o ia j)) ^ 2
      + (grad_B_tensor_cylindrical_11 o (wireFull o ia j)) ^ 2 + (grad_B_tensor_cylindrical_12 o (wireFull o ia j)) ^ 2
      + (grad_B_tensor_cylindrical_20 o (wireFull o ia j)) ^ 2 + (grad_B_tensor_cylindrical_21 o (wireFull o ia j)) ^ 2
      + (grad_B_tensor_cylindrical_22 o (wireFull o ia j)) ^ 2)) := by
  rw [C09Frob.L_gradB_basis_free o (wireFull o ia j) (frame_of_axis_full o ia j hsqrt hl hk), hsqrt]
  rfl

theorem frob_cart_eq_frenet_axis_full (o : Ops ℝ) (ia : Gen.Axis.In ℝ) (j : Gen.GradB.In ℝ) (phi : ℝ)
    (hsqrt : ∀ x, o.sqrt x = Real.sqrt x) (hcos : ∀ x, o.cos x = Real.cos x) (hsin : ∀ x, o.sin x = Real.sin x)
    (hl : 0 < C03.speedSq ia) (hk : 0 < Gen.Axis.curvature o ia) :
    let c := C09Frob.toCart o (wireFull o ia j) phi
    (Gen.GradBCart.c00 o c) ^ 2 + (Gen.GradBCart.c01 o c) ^ 2 + (Gen.GradBCart.c02 o c) ^ 2
      + (Gen.GradBCart.c10 o c) ^ 2 + (Gen.GradBCart.c11 o c) ^ 2 + (Gen.GradBCart.c12 o c) ^ 2
      + (Gen.GradBCart.c20 o c) ^ 2 + (Gen.GradBCart.c21 o c) ^ 2 + (Gen.GradBCart.c22 o c) ^ 2
    = grad_B_colon_grad_B o (wireFull o ia j) :=
  C09Frob.frob_cart_eq_frenet o (wireFull o ia j) phi (frame_of_axis_full o ia j hsqrt hl hk)
    (by rw [hcos, hsin]; exact Real.cos_sq_add_sin_sq phi)

end cor

/-! ## Non-vacuity: the hypotheses are satisfiable -/
section nonvac

/-- the unit circle in the plane `Z = 0`: `R0 = 1`, all `φ`-derivatives `0`; every non-geometric field arbitrary -/
def circle (B0 d_phi etabar nfp phi sG spsi varphi_cumsum : ℝ) : Gen.Axis.In ℝ :=
  { B0 := B0, R0 := 1, R0p := 0, R0pp := 0, R0ppp := 0, Z0 := 0, Z0p := 0, Z0pp := 0, Z0ppp := 0,
    d_phi := d_phi, etabar := etabar, nfp := nfp, phi := phi, sG := sG, spsi := spsi,
    varphi_cumsum := varphi_cumsum }

/-- a concrete `Ops ℝ` with the real `sqrt`, `|·|`, `sin`, `cos`, `exp`; the remaining (unused here) fields trivial -/
noncomputable def realOps : Ops ℝ :=
  { D := id, Dphi := id, sqrt := Real.sqrt, abs := fun x => |x|, sin := Real.sin, cos := Real.cos, exp := Real.exp,
    atan2 := fun _ _ => 0, sum := id, amax := id, amin := id, fmin := id, elemAt := fun _ x => x,
    setAt := fun _ x _ => x, spline := fun _ x => x, pi := Real.pi, mu0 := 1, nphi := 1 }

theorem realOps_spec : (∀ x, realOps.sqrt x = Real.sqrt x) ∧ (∀ x, realOps.cos x = Real.cos x) ∧
    (∀ x, realOps.sin x = Real.sin x) := ⟨fun _ => rfl, fun _ => rfl, fun _ => rfl⟩

variable (B0 d_phi etabar nfp phi sG spsi vc : ℝ)

theorem circle_speedSq : C03.speedSq (circle B0 d_phi etabar nfp phi sG spsi vc) = 1 := by
  simp [C03.speedSq, circle]

theorem circle_crossSq :
    C03.crossSq (circle B0 d_phi etabar nfp phi sG spsi vc).R0 (circle B0 d_phi etabar nfp phi sG spsi vc).R0p
      (circle B0 d_phi etabar nfp phi sG spsi vc).R0pp (circle B0 d_phi etabar nfp phi sG spsi vc).Z0p
      (circle B0 d_phi etabar nfp phi sG spsi vc).Z0pp = 1 := by
  simp [C03.crossSq, C03.cross0, C03.cross1, C03.cross2, circle]

/-- both hypotheses of `frame_of_axis` hold for the circle, for **every** `o` whose `sqrt` is the real one
(the curvature hypothesis is discharged through `C03.curvature_pos_iff`, avoiding any computation with `Real.sqrt`) -/
theorem circle_hyps (o : Ops ℝ) (hsqrt : ∀ x, o.sqrt x = Real.sqrt x) :
    0 < C03.speedSq (circle B0 d_phi etabar nfp phi sG spsi vc) ∧
    0 < Gen.Axis.curvature o (circle B0 d_phi etabar nfp phi sG spsi vc) := by
  have hl : 0 < C03.speedSq (circle B0 d_phi etabar nfp phi sG spsi vc) := by
    rw [circle_speedSq]; exact one_pos
  refine ⟨hl, (C03.curvature_pos_iff o _ hsqrt hl).mpr ?_⟩
  rw [circle_crossSq]; exact one_pos

/-- the circle has curvature exactly `1` -/
theorem circle_curvature (o : Ops ℝ) (hsqrt : ∀ x, o.sqrt x = Real.sqrt x) :
    Gen.Axis.curvature o (circle B0 d_phi etabar nfp phi sG spsi vc) = 1 := by
  have hl : 0 < C03.speedSq (circle B0 d_phi etabar nfp phi sG spsi vc) := by
    rw [circle_speedSq]; exact one_pos
  obtain ⟨hlpos, hll⟩ := C03.d_l_d_phi_sq o _ hsqrt hl
  have h := C03.curvature_classical o (circle B0 d_phi etabar nfp phi sG spsi vc) hsqrt hl
  rw [circle_crossSq, Real.sqrt_one] at h
  rw [circle_speedSq] at hll
  have hone : Gen.Axis.d_l_d_phi o (circle B0 d_phi etabar nfp phi sG spsi vc) = 1 := by nlinarith
  rw [h, hone]; norm_num

/-- **non-vacuity**: a fully concrete instance (`realOps`, unit circle) of `frame_of_axis`; hence every corollary
above applies to it, for any `j`. -/
example (j : Gen.GradB.In ℝ) : C09Frob.FrameOrthonormal (wire realOps (circle 1 1 1 1 0 1 1 0) j) :=
  frame_of_axis realOps _ j realOps_spec.1 (circle_hyps 1 1 1 1 0 1 1 0 realOps realOps_spec.1).1
    (circle_hyps 1 1 1 1 0 1 1 0 realOps realOps_spec.1).2

example (j : Gen.GradB.In ℝ) (phi : ℝ) :
    let c := C09Frob.toCart realOps (wireFull realOps (circle 1 1 1 1 0 1 1 0) j) phi
    (Gen.GradBCart.c00 realOps c) ^ 2 + (Gen.GradBCart.c01 realOps c) ^ 2 + (Gen.GradBCart.c02 realOps c) ^ 2
      + (Gen.GradBCart.c10 realOps c) ^ 2 + (Gen.GradBCart.c11 realOps c) ^ 2 + (Gen.GradBCart.c12 realOps c) ^ 2
      + (Gen.GradBCart.c20 realOps c) ^ 2 + (Gen.GradBCart.c21 realOps c) ^ 2 + (Gen.GradBCart.c22 realOps c) ^ 2
    = Gen.GradB.grad_B_colon_grad_B realOps (wireFull realOps (circle 1 1 1 1 0 1 1 0) j) :=
  frob_cart_eq_frenet_axis_full realOps _ j phi realOps_spec.1 realOps_spec.2.1 realOps_spec.2.2
    (circle_hyps 1 1 1 1 0 1 1 0 realOps realOps_spec.1).1 (circle_hyps 1 1 1 1 0 1 1 0 realOps realOps_spec.1).2

end nonvac

end C09Axis

#print axioms C09Axis.wire_fields
#print axioms C09Axis.frameOrthonormal_congr
#print axioms C09Axis.frame_of_axis
#print axioms C09Axis.frame_of_axis'
#print axioms C09Axis.frame_of_axis_full
#print axioms C09Axis.frob_cyl_eq_frenet_axis
#print axioms C09Axis.trace_cyl_eq_frenet_axis
#print axioms C09Axis.L_gradB_basis_free_axis
#print axioms C09Axis.frob_cart_eq_frenet_axis
#print axioms C09Axis.frob_cart_eq_frenet_axis_phi
#print axioms C09Axis.frob_cyl_eq_frenet_axis_full
#print axioms C09Axis.trace_cyl_eq_frenet_axis_full
#print axioms C09Axis.L_gradB_basis_free_axis_full
#print axioms C09Axis.frob_cart_eq_frenet_axis_full
#print axioms C09Axis.circle_hyps
#print axioms C09Axis.circle_curvature
