import QscProofs.Eqv
/-!
# How the equivariance theorems are specialised (hand-written examples)

`QscProofs/Eqv/*.lean` state every law for an arbitrary transformation `T : Tr ι ι'`.  Choosing `T` gives the project's
properties:

* C08 (units) and two of the C07 symmetries (field reversal, mirror): `T = Tr.ofId o h l c s1 s2 …` (unchanged grid);
* C07 toroidal reversal: `π j = −j`, `s3 = −1`, `o' = o`;   C05 origin shift: `π` a rotation, all weights 1;
* C06 field-period representation: `π j = j mod n`, `κ = k`, `o'` the operations of the `k·n`-point grid.
-/
namespace EqvUse
open Gen.Mercier Eqv.Mercier

/-- C08 + field reversal + mirror for the Mercier criterion, spelled out: scaling lengths by `l` and fields by `c`
(and reversing the field / mirroring) multiplies `DMerc_times_r2` by `l⁻² c⁻²`. -/
theorem DMerc_units {ι : Type} (o : Ops (ι → ℝ)) (h : o.Lawful) (l c s1 s2 : ℝ) (hl : 0 < l) (hc : 0 < c)
    (hs1 : s1 = 1 ∨ s1 = -1) (hs2 : s2 = 1 ∨ s2 = -1) (i : In (ι → ℝ)) :
    DMerc_times_r2 o (ap (Tr.ofId o h l c s1 s2 hl hc hs1 hs2) i) = (l ^ (-2 : ℤ) * c ^ (-2 : ℤ)) • DMerc_times_r2 o i := by
  have e := DMerc_times_r2_eqv (Tr.ofId o h l c s1 s2 hl hc hs1 hs2) i
  rw [Tr.act_ofId] at e
  simpa [sgnPow, Tr.ofId] using e

/-- the transformed inputs of that statement, e.g. the pressure coefficient: `p2 ↦ l⁻² c² p2` -/
example {ι : Type} (o : Ops (ι → ℝ)) (h : o.Lawful) (l c : ℝ) (hl : 0 < l) (hc : 0 < c) (i : In (ι → ℝ)) :
    (ap (Tr.ofId o h l c 1 1 hl hc (Or.inl rfl) (Or.inl rfl)) i).p2 = (l ^ (-2 : ℤ) * c ^ (2 : ℤ)) • i.p2 := by
  rw [ap_p2, Tr.act_ofId]
  simp [sgnPow]

end EqvUse
