import QscProofs.C01
import QscProofs.C02
import QscProofs.C03
import QscProofs.C03Axis
import QscProofs.C04
import QscProofs.C09
import QscProofs.C09Frob
import QscProofs.C10
import QscProofs.C10gen
import QscProofs.C11
import QscProofs.C12
import QscProofs.C13
import QscProofs.C14
import QscProofs.C14Fourier
import QscProofs.C15
import QscProofs.C16
import QscProofs.C17
import QscProofs.C19
import QscProofs.C20Fmin
import QscProofs.C20Interp
import QscProofs.C20Newton
import QscProofs.C20Spec
import QscProofs.Eqv
import QscProofs.EqvGrid
import QscProofs.EqvUse
/-! Every property module; `setup.sh` builds this so that the first check after a fresh restore is a no-op build.
(The checks themselves build exactly the modules their property lists.) -/
