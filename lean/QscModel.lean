import QscModel.Prelude
import QscModel.FArr
import QscModel.Gen.All
import QscModel.Hand.All
