"""Fully qualified names of the theorems stated in a Lean file (obligations of a property)."""
import re, os


def theorems(path):
    ns, out = [], []
    txt = open(path).read()
    txt = re.sub(r'/-.*?-/', lambda m: '\n' * m.group(0).count('\n'), txt, flags=re.S)
    for line in txt.split('\n'):
        line = re.sub(r'--.*', '', line)
        m = re.match(r'^\s*namespace\s+(\S+)', line)
        if m:
            ns.append(m.group(1)); continue
        m = re.match(r'^\s*end\s+(\S+)\s*$', line)
        if m and ns and ns[-1] == m.group(1):
            ns.pop(); continue
        m = re.match(r'^\s*(?:@\[[^\]]*\]\s*)?(?:protected\s+|noncomputable\s+)*theorem\s+([^\s:({\[]+)', line)
        if m:
            nm = m.group(1)
            out.append('.'.join(ns + [nm]) if not nm.startswith('_root_.') else nm[7:])
    return out


def module_path(lean_dir, module):
    return os.path.join(lean_dir, module.replace('.', '/') + '.lean')


if __name__ == '__main__':
    import sys
    for p in sys.argv[1:]:
        print(p, len(theorems(p)))
        for t in theorems(p):
            print('  ', t)
