#!/venv/bin/python
"""Run checks against a seeded change:  checker/seeded.py <patch.diff> <Cxx> [<Cyy> ...]
Applies the patch to /repo (or $QSC_REPO; which must be clean), runs the given checks, ALWAYS restores /repo, prints one JSON line."""
import sys, os, subprocess, json, time

VERIF = os.path.dirname(os.path.dirname(os.path.abspath(__file__)))
REPO = os.environ.get('QSC_REPO', '/repo')   # a parallel worker (checker/par_seeded.py) points this at its own worktree


def sh(cmd, **kw):
    return subprocess.run(cmd, capture_output=True, text=True, **kw)


def main():
    patch = os.path.abspath(sys.argv[1])
    props = sys.argv[2:]
    st = sh(['git', '-C', REPO, 'status', '--porcelain'])
    if st.stdout.strip():
        print(json.dumps(dict(error='/repo is not clean', status=st.stdout)))
        sys.exit(2)
    ap = sh(['git', '-C', REPO, 'apply', patch])
    if ap.returncode != 0:
        print(json.dumps(dict(error='patch does not apply', detail=ap.stderr[-500:])))
        sys.exit(2)
    res = {}
    try:
        for p in props:
            t0 = time.time()
            r = sh([os.path.join(VERIF, 'check'), p], cwd=VERIF, env=dict(os.environ, VERIF_SEED=os.environ.get('VERIF_SEED', '0')))
            lines = [l for l in r.stdout.split('\n') if l.startswith('VIOLATION') or l.startswith(p + ' tier=')]
            res[p] = dict(exit=r.returncode, lines=lines, wall_s=round(time.time() - t0, 1))
            # keep the replay of the first violation for the record
            for l in lines:
                if l.startswith('VIOLATION'):
                    rp = l.split('replay=')[1].split()[0]
                    try:
                        d = json.load(open(os.path.join(VERIF, rp)))
                        res[p]['replay_kind'] = d.get('kind')
                        res[p]['broken'] = [b['kind'] + ':' + b['what'] for b in d.get('broken', [])][:8]
                        if d.get('failure'):
                            res[p]['failing_clause'] = d['failure'].get('clause')
                    except Exception:
                        pass
    finally:
        sh(['git', '-C', REPO, 'checkout', '--', '.'])
        # regenerate the model for the restored tree so that later no-op builds are fast
        sh(['/venv/bin/python', os.path.join(VERIF, 'tools', 'trace', 'gen.py')])
        sh(['/venv/bin/python', os.path.join(VERIF, 'tools', 'trace', 'equiv.py'), '--out', os.path.join(VERIF, 'lean')])
    print(json.dumps(res, indent=1))


if __name__ == '__main__':
    main()
