"""The decision procedure of DESIGN.md section 2.4:  translate -> build/prove -> audit -> correspond -> (search) -> verdict."""
import os, sys, json, subprocess, time, hashlib, re, fcntl, glob

VERIF = os.path.dirname(os.path.dirname(os.path.abspath(__file__)))
LEAN = os.path.join(VERIF, 'lean')
GEN = os.path.join(LEAN, 'QscModel', 'Gen')
PY = '/venv/bin/python'
ALLOWED_AXIOMS = {'propext', 'Classical.choice', 'Quot.sound'}
FORBIDDEN = re.compile(r'\b(sorry|admit|native_decide|bv_decide|implemented_by|unsafe)\b|^\s*axiom\s|maxHeartbeats\s+0\b', re.M)

TRUSTED_BASE = [
    'Lean 4.33.0 kernel and Mathlib v4.33.0; axioms of every property theorem audited each run to be within {propext, Classical.choice, Quot.sound}; no sorry/admit/native_decide/bv_decide/axiom',
    'the translator /verif/tools/trace (symbolic execution of the current /repo/qsc source into Lean definitions), validated on every run by evaluating the generated definitions at Float against the real object (correspondence), not proved',
    'the hand-written executable models /verif/lean/QscModel/Hand, tied to the implementation by the correspondence harness on seeded inputs (IEEE bit patterns), not proved equal to it',
    'Float/libm agreement between Lean and NumPy to 1e-9 relative; LAPACK, SciPy (CubicSpline, brentq, Brent), numpy.polyroots, Python string formatting and matplotlib are parameters of the model with contracts checked at run time',
    'the rendering of the English property as Lean statements (QscProofs/Cxx.lean) and the numeric oracles used to search for failing inputs',
    'floating-point round-off and, for continuum (differential-field) theorems, the discretisation error of the pseudo-spectral derivative are measured, not proved',
]


class Lock:
    def __enter__(self):
        self.f = open(os.path.join(VERIF, '.lock'), 'w')
        fcntl.flock(self.f, fcntl.LOCK_EX)
        return self

    def __exit__(self, *a):
        fcntl.flock(self.f, fcntl.LOCK_UN)
        self.f.close()


def sh(cmd, cwd=None, timeout=None, env=None):
    e = dict(os.environ)
    if env:
        e.update(env)
    p = subprocess.run(cmd, cwd=cwd, capture_output=True, text=True, timeout=timeout, env=e)
    return p.returncode, p.stdout, p.stderr


def translate():
    """regenerate the model from the working tree; returns gen_meta"""
    rc, out, err = sh([PY, os.path.join(VERIF, 'tools', 'trace', 'gen.py')])
    if rc != 0:
        return dict(modules={}, aborts={'*': dict(kind='translator-crash', msg=(err or out)[-2000:])}, hashes={})
    return json.load(open(os.path.join(GEN, 'gen_meta.json')))


def build(targets, timeout=3000):
    """lake build of the given modules; returns (ok, failed_modules, log)"""
    rc, out, err = sh(['lake', 'build'] + targets, cwd=LEAN, timeout=timeout)
    log = out + err
    if rc != 0 and not re.search(r'^error: \S+\.lean:\d+:\d+', log, re.M):
        # no error located in a source file: the build tool itself failed (killed, out of memory, lock): once more, then give up
        # as a tool failure - never as a statement about the code
        time.sleep(10)
        rc, out, err = sh(['lake', 'build'] + targets, cwd=LEAN, timeout=timeout)
        log = out + err
        if rc != 0 and not re.search(r'^error: \S+\.lean:\d+:\d+', log, re.M):
            print('TOOL FAILURE (not a verdict): lake build failed twice without a located error\n' + log[-1500:])
            sys.exit(2)
    failed = sorted(set(re.findall(r'^- (\S+)$', log, re.M)))
    if rc != 0 and not failed:
        failed = ['<build>']
    return rc == 0, failed, log


def error_excerpt(log, module, limit=1500):
    path = module.replace('.', '/') + '.lean'
    lines = [l for l in log.split('\n') if l.startswith('error:') and path in l]
    return '\n'.join(lines)[:limit]


def audit(theorems, imports):
    """#print axioms for each theorem -> {name: [axioms]}; missing theorem -> None"""
    if not theorems:
        return {}
    src = ''.join('import %s\n' % m for m in imports) + ''.join('#print axioms %s\n' % t for t in theorems)
    h = hashlib.sha256(src.encode()).hexdigest()[:12]
    d = os.path.join(LEAN, '.lake', 'audit')
    os.makedirs(d, exist_ok=True)
    f = os.path.join(d, 'Audit_%s.lean' % h)
    open(f, 'w').write(src)
    rc, out, err = sh(['lake', 'env', 'lean', f], cwd=LEAN, timeout=1800)
    res = {t: None for t in theorems}
    txt = out + err
    for m in re.finditer(r"'(\S+)' depends on axioms: \[([^\]]*)\]", txt, re.S):
        res[m.group(1)] = [a.strip() for a in m.group(2).replace('\n', ' ').split(',') if a.strip()]
    for m in re.finditer(r"'(\S+)' does not depend on any axioms", txt):
        res[m.group(1)] = []
    return res


def grep_forbidden(files):
    hits = []
    for f in files:
        try:
            txt = open(f).read()
        except OSError:
            continue
        # strip comments
        txt2 = re.sub(r'/-.*?-/', lambda m: '\n' * m.group(0).count('\n'), txt, flags=re.S)
        txt2 = re.sub(r'--.*', '', txt2)
        for m in FORBIDDEN.finditer(txt2):
            hits.append('%s: %s' % (os.path.relpath(f, VERIF), m.group(0).strip()))
    return hits


def module_files(mods):
    return [os.path.join(LEAN, m.replace('.', '/') + '.lean') for m in mods]


def transitive_local_imports(mods):
    seen, todo = set(), list(mods)
    while todo:
        m = todo.pop()
        if m in seen:
            continue
        f = os.path.join(LEAN, m.replace('.', '/') + '.lean')
        if not os.path.exists(f):
            continue
        seen.add(m)
        for l in open(f):
            mm = re.match(r'^import (Qsc\S+)', l)
            if mm:
                todo.append(mm.group(1))
    return sorted(seen)


def write_replay(prop, payload):
    os.makedirs(os.path.join(VERIF, 'replays'), exist_ok=True)
    h = hashlib.sha256(json.dumps(payload, sort_keys=True, default=str).encode()).hexdigest()[:10]
    path = os.path.join(VERIF, 'replays', '%s-%s.json' % (prop, h))
    with open(path, 'w') as f:
        json.dump(payload, f, indent=1, default=str)
    return os.path.relpath(path, VERIF)


def write_evidence(prop, ev):
    os.makedirs(os.path.join(VERIF, 'evidence'), exist_ok=True)
    with open(os.path.join(VERIF, 'evidence', prop + '.json'), 'w') as f:
        json.dump(ev, f, indent=1, default=str)
