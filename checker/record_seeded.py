#!/venv/bin/python
"""Record a confirmed seeded change under /verif/seeded/<id>/:  record_seeded.py <Cxx> <k> <prop>[,<prop>...]
Inputs: /tmp/mut/out/<Cxx>/<k>/{patch.diff,demo.py,notes.md}, /tmp/mut/results/<Cxx>_<k>.confirm (my own confirmation run).
Runs the named checks against the change (checker/seeded.py) and writes meta.json."""
import sys, os, json, shutil, subprocess, re

VERIF = os.path.dirname(os.path.dirname(os.path.abspath(__file__)))


def main():
    cid, k, props = sys.argv[1], sys.argv[2], sys.argv[3].split(',')
    src = '/tmp/mut/out/%s/%s' % (cid, k)
    conf = open('/tmp/mut/results/%s_%s.confirm' % (cid, k)).read()
    ok = ('exit=0' in conf.split('== demo with the change')[0]) and ('exit=1' in conf.split('== demo with the change')[1].split('== test suite')[0]) \
        and re.search(r'31 passed', conf) is not None
    if not ok:
        print('NOT CONFIRMED:\n' + conf)
        sys.exit(1)
    dst = os.path.join(VERIF, 'seeded', '%s_%s' % (cid, k))
    os.makedirs(dst, exist_ok=True)
    shutil.copy(os.path.join(src, 'patch.diff'), os.path.join(dst, 'patch.diff'))
    shutil.copy(os.path.join(src, 'demo.py'), os.path.join(dst, 'demo.py'))
    for extra in os.listdir(src):
        if extra.endswith('.py') and extra != 'demo.py':
            shutil.copy(os.path.join(src, extra), os.path.join(dst, extra))
    # helper modules next to the demos (e.g. ref.py one level up)
    up = os.path.dirname(src)
    for extra in os.listdir(up):
        if extra.endswith('.py'):
            shutil.copy(os.path.join(up, extra), os.path.join(dst, extra))
    notes = open(os.path.join(src, 'notes.md')).read() if os.path.exists(os.path.join(src, 'notes.md')) else ''
    r = subprocess.run(['/venv/bin/python', os.path.join(VERIF, 'checker', 'seeded.py'), os.path.join(dst, 'patch.diff')] + props, capture_output=True, text=True)
    try:
        res = json.loads(r.stdout)
    except Exception:
        res = dict(error=r.stdout[-2000:] + r.stderr[-2000:])
    meta = dict(id='%s_%s' % (cid, k), breaks_property=cid, written_by='independent sub-agent given only the text of the property and a scratch worktree',
                what_and_what_it_needs_to_manifest=notes[:3000],
                confirmed_by_me=dict(command='/tmp/mut/confirm.sh %s %s (fresh worktree: demo on unchanged code, git apply, demo, full test suite)' % (cid, k), output=conf),
                checks_run=res,
                caught_by=[p for p, v in res.items() if isinstance(v, dict) and v.get('exit') == 1],
                caught_with_failing_input=[p for p, v in res.items() if isinstance(v, dict) and v.get('replay_kind') == 'failing-input'])
    json.dump(meta, open(os.path.join(dst, 'meta.json'), 'w'), indent=1)
    print(cid, k, 'caught_by', meta['caught_by'], 'with failing input', meta['caught_with_failing_input'])


if __name__ == '__main__':
    main()
