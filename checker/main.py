#!/venv/bin/python
"""./check <Cxx> [--tier quick|thorough]   |   ./check replay <path>"""
import os, sys, json, time, traceback, argparse
HERE = os.path.dirname(os.path.abspath(__file__))
VERIF = os.path.dirname(HERE)
sys.path.insert(0, HERE)
sys.path.insert(0, os.path.join(VERIF, 'harness'))
import core


def load_known():
    p = os.path.join(VERIF, 'known_findings.json')
    if not os.path.exists(p):
        return []
    return json.load(open(p)).get('findings', [])


def run_check(prop, tier, seed):
    import numpy as np
    import props
    t0 = time.time()
    spec = props.PROPS[prop]
    broken = []          # broken obligations / ties: dicts(kind, what, detail)
    ev_extra = {}
    # ---- 1-3: translate, build, audit (serialised: the Lake build directory is shared)
    with core.Lock():
        meta = core.translate()
        for g in spec.get('gen', []):
            if g in meta.get('aborts', {}) or '*' in meta.get('aborts', {}):
                a = meta['aborts'].get(g) or meta['aborts']['*']
                broken.append(dict(kind='translation', what='Gen.' + g, detail=a.get('msg', '')[:500]))
        if spec.get('eqv'):
            rc_, out_, err_ = core.sh([core.PY, os.path.join(VERIF, 'tools', 'trace', 'equiv.py'), '--out', core.LEAN])
            try:
                summ = json.load(open(os.path.join(core.LEAN, 'QscProofs', 'Eqv', 'summary.json')))
                expd = json.load(open(os.path.join(VERIF, 'Spec', 'eqv_expected.json')))['modules']
            except Exception as ex:
                summ, expd = {}, {}
                broken.append(dict(kind='translation', what='equivariance generator', detail=(err_ or out_ or str(ex))[-600:]))
            for m_ in spec['eqv']:
                got = summ.get(m_, {})
                for d_ in expd.get(m_, {}).get('proved', []):
                    if d_ not in got.get('proved', {}):
                        if d_ not in got.get('no_law', {}) and d_ in expd.get(m_, {}).get('optional', []):
                            continue        # a renamed / inlined local: the attributes computed from it keep their own laws
                        why = got.get('no_law', {}).get(d_, 'definition no longer generated')
                        broken.append(dict(kind='equivariance-law-lost', what='Gen.%s.%s' % (m_, d_), detail=str(why)[:300]))
                for d_, why in got.get('spec_mismatch', {}).items():
                    broken.append(dict(kind='equivariance-weight-differs-from-spec', what='Gen.%s.%s' % (m_, d_), detail=str(why)[:300]))
            ev_extra['equivariance'] = {m_: dict(proved=len(summ.get(m_, {}).get('proved', {})), no_law=sorted(summ.get(m_, {}).get('no_law', {}))) for m_ in spec['eqv']}
        targets = ['QscModel'] + spec.get('lean', [])
        ok, failed, log = core.build(targets)
        model_failed = [f for f in failed if f.startswith('QscModel') or f == '<build>']
        for f in failed:
            if f.startswith('QscProofs') or f in model_failed:
                broken.append(dict(kind='proof' if f.startswith('QscProofs') else 'model-build', what=f, detail=core.error_excerpt(log, f)))
        theorems = list(spec.get('theorems', []))
        if spec.get('eqv'):
            # laws of named locals / auxiliary sub-expressions that the current source no longer has are not obligations
            try:
                gone = set()
                for m_ in spec['eqv']:
                    got = summ.get(m_, {})
                    for d_ in expd.get(m_, {}).get('optional', []):
                        if d_ not in got.get('proved', {}) and d_ not in got.get('no_law', {}):
                            gone.add('Eqv.%s.%s_eqv' % (m_, d_))
                theorems = [t for t in theorems if t not in gone]
                if gone:
                    ev_extra['optional_laws_not_applicable'] = sorted(gone)
            except Exception:
                pass
        ax = {}
        if not model_failed:
            okmods = [m for m in spec.get('lean', []) if m not in failed]
            ax = core.audit(theorems, okmods) if okmods else {t: None for t in theorems}
        discharged, listing = 0, []
        for t in theorems:
            a = ax.get(t)
            good = a is not None and set(a) <= core.ALLOWED_AXIOMS
            discharged += bool(good)
            listing.append(dict(theorem=t, checked=bool(good), axioms=a))
            if a is not None and not good:
                broken.append(dict(kind='axioms', what=t, detail='depends on %s' % a))
            if a is None and not any(b['kind'] in ('proof', 'model-build') for b in broken):
                broken.append(dict(kind='proof', what=t, detail='theorem not found after build'))
        forb = core.grep_forbidden(core.module_files(core.transitive_local_imports(spec.get('lean', []))))
        for h in forb:
            broken.append(dict(kind='forbidden-word', what=h, detail=''))
        # thorough tier: the toolchain's independent re-checker replays the compiled proofs of the property's modules
        if tier == 'thorough' and not failed and spec.get('lean'):
            mods = [m for m in core.transitive_local_imports(spec['lean']) if m.startswith('QscProofs')]
            t1 = time.time()
            try:
                rc_, out_, err_ = core.sh(['lake', 'env', 'leanchecker'] + mods, cwd=core.LEAN, timeout=3000)
            except Exception as ex:
                rc_, out_, err_ = 2, '', str(ex)
            ev_extra['leanchecker'] = dict(modules=len(mods), exit=rc_, seconds=round(time.time() - t1, 1), output=(out_ + err_)[-400:])
            if rc_ != 0:
                broken.append(dict(kind='leanchecker', what=' '.join(mods)[:300], detail=(out_ + err_)[-600:]))
    # ---- 4: correspondence (model vs implementation)
    ctx = props.Ctx(seed=seed, tier=tier)
    corr = dict(evaluations=0, disagreements=[], samples=[], distinct=0)
    if not any(b['kind'] == 'model-build' for b in broken):
        try:
            corr = spec['corr'](ctx) if 'corr' in spec else corr
        except Exception as ex:
            if type(ex).__name__ == 'ToolFailure':
                print('TOOL FAILURE (not a verdict): %s' % ex)
                sys.exit(2)
            broken.append(dict(kind='correspondence-crash', what=type(ex).__name__, detail=traceback.format_exc()[-1500:]))
    for d in corr['disagreements'][:20]:
        broken.append(dict(kind='correspondence', what=str(d.get('module', d.get('kernel', '?'))) + '.' + str(d.get('name', '')), detail=json.dumps(d, default=str)[:600]))
    # ---- 5: numeric oracles of the property on the real implementation (always run; they supply the replay)
    failures, oracle_stats = [], dict(evaluations=0, clauses=[])
    try:
        if 'oracle' in spec:
            failures, oracle_stats = spec['oracle'](ctx)
    except Exception as ex:
        broken.append(dict(kind='oracle-crash', what=type(ex).__name__, detail=traceback.format_exc()[-1500:]))
    # ---- a broken obligation with no failing input so far: widen the search (thorough-size input sets, further seeds)
    escalations = []
    if broken and not failures and 'oracle' in spec and os.environ.get('VERIF_NO_ESCALATE') != '1':
        for s2, t2 in ((seed + 1, 'quick'), (seed + 2, 'quick'), (seed, 'thorough')):
            if (s2, t2) == (seed, tier) or time.time() - t0 > (240 if t2 == 'thorough' else 400):
                continue
            try:
                f2, st2 = spec['oracle'](props.Ctx(seed=s2, tier=t2))
            except Exception as ex:
                escalations.append(dict(seed=s2, tier=t2, crashed=type(ex).__name__))
                continue
            escalations.append(dict(seed=s2, tier=t2, evaluations=st2.get('evaluations', 0), failures=len(f2)))
            oracle_stats['evaluations'] = oracle_stats.get('evaluations', 0) + st2.get('evaluations', 0)
            if f2:
                failures = f2
                break
        ev_extra['escalated_search'] = escalations
    try:
        ev_extra['input_distribution'] = ctx.input_distribution()
    except Exception:
        pass
    # ---- known findings
    known = [k for k in load_known() if k['property'] == prop and k.get('status', 'open') == 'open']
    known_lines, unlisted = [], []
    for f in failures:
        hit = next((k for k in known if props.matches_known(k, f)), None)
        if hit is not None:
            continue
        unlisted.append(f)
    for k in known:
        rep = props.reproduce_known(k, ctx)
        if rep:
            known_lines.append('KNOWN-FINDING: property=%s %s %s' % (prop, k['id'], k['what']))
    # ---- verdict
    violations = 0
    out_lines = []
    if unlisted:
        violations = len(unlisted)
        payload = dict(property=prop, kind='failing-input', failure=unlisted[0], all_failures=unlisted[:10], broken=broken, seed=seed, tier=tier)
        path = core.write_replay(prop, payload)
        out_lines.append('VIOLATION property=%s replay=%s' % (prop, path))
    elif broken:
        violations = 1
        payload = dict(property=prop, kind='broken-obligation', broken=broken, seed=seed, tier=tier,
                       note='no concrete failing input found by the search; the named theorem / correspondence no longer checks')
        path = core.write_replay(prop, payload)
        out_lines.append('VIOLATION property=%s replay=%s no-failing-input-found' % (prop, path))
    # ---- evidence
    obligations = max(len(theorems), 1)
    ev = dict(property_id=prop, tier=tier, seed=seed, level='proof', wall_s=round(time.time() - t0, 2), violations=violations,
              coverage=dict(
                  obligations=obligations, discharged=discharged if theorems else 0,
                  checker_cmd='cd /verif/lean && lake build %s  (then `#print axioms` of every listed theorem)' % ' '.join(spec.get('lean', [])),
                  trusted_base=core.TRUSTED_BASE, theorems=listing,
                  evaluations=int(corr['evaluations'] + oracle_stats.get('evaluations', 0)),
                  distinct_nontrivial=int(corr.get('distinct', 0) + oracle_stats.get('distinct', 0)),
                  rule=spec.get('rule', ''), samples=(corr['samples'][:4] + oracle_stats.get('samples', [])[:4]) or ['(no sampled case in this run)'],
                  correspondence=dict(evaluations=corr['evaluations'], disagreements=len(corr['disagreements']),
                                      unchecked_definitions=corr.get('unchecked', []), max_rel=corr.get('max_rel')),
                  oracle=oracle_stats, generated_modules=spec.get('gen', []), source_hashes=meta.get('hashes', {}),
                  translation_aborts=meta.get('aborts', {}), broken_obligations=broken, partial_clauses=spec.get('partial', []),
                  known_findings_reproduced=known_lines, **ev_extra),
              assumptions=core.TRUSTED_BASE + spec.get('partial', []))
    core.write_evidence(prop, ev)
    for l in known_lines:
        print(l)
    for l in out_lines:
        print(l)
    print('%s tier=%s seed=%d: %d/%d theorems checked, correspondence %d evaluations (%d disagreements), oracle %d evaluations (%d failures, %d unlisted), %d broken obligations, %.1fs'
          % (prop, tier, seed, discharged, len(theorems), corr['evaluations'], len(corr['disagreements']), oracle_stats.get('evaluations', 0), len(failures), len(unlisted), len(broken), time.time() - t0))
    return 1 if violations else 0


def main():
    ap = argparse.ArgumentParser()
    ap.add_argument('prop')
    ap.add_argument('path', nargs='?')
    ap.add_argument('--tier', default=os.environ.get('VERIF_TIER', 'quick'))
    a = ap.parse_args()
    seed = int(os.environ.get('VERIF_SEED', '0') or 0)
    if a.prop == 'replay':
        import props
        sys.exit(props.replay(a.path))
    try:
        rc = run_check(a.prop, a.tier, seed)
    except SystemExit:
        raise
    except Exception:
        traceback.print_exc()
        sys.exit(2)
    sys.exit(rc)


if __name__ == '__main__':
    main()
