#!/venv/bin/python
"""Run checks against many patches in parallel, each in a private copy of /verif and a private worktree of /repo:
    par_seeded.py <jobs.json> <out.json> [workers]
jobs.json = [{"id":..., "patch":..., "props":[...]}, ...].  Used only for the seeded-change / refactoring campaigns; the
registered checks always run /verif against /repo itself.  Everything lives under /tmp/par and is removed at the end."""
import sys, os, json, subprocess, threading, queue, shutil

VERIF = os.path.dirname(os.path.dirname(os.path.abspath(__file__)))
ROOT = os.environ.get('PAR_ROOT', '/tmp/par')


def sh(cmd, **kw):
    return subprocess.run(cmd, capture_output=True, text=True, **kw)


def worker(k, q, out, lock):
    w = os.path.join(ROOT, 'w%d' % k)
    v, r = os.path.join(w, 'verif'), os.path.join(w, 'repo')
    os.makedirs(w, exist_ok=True)
    sh(['rsync', '-a', '--delete', '--exclude', '.git', '--exclude', 'replays', VERIF + '/', v + '/'])
    sh(['git', '-C', '/repo', 'worktree', 'add', '-f', '--detach', r, 'HEAD'])
    env = dict(os.environ, QSC_REPO=r, OMP_NUM_THREADS='2', OPENBLAS_NUM_THREADS='2')
    while True:
        try:
            job = q.get_nowait()
        except queue.Empty:
            break
        p = sh(['/venv/bin/python', os.path.join(v, 'checker', 'seeded.py'), job['patch']] + job['props'], env=env)
        try:
            res = json.loads(p.stdout)
        except Exception:
            res = dict(error=(p.stdout[-1500:] + p.stderr[-1500:]))
        # keep the replays of violations next to the result
        for pr, rv in res.items():
            if isinstance(rv, dict):
                for l in rv.get('lines', []):
                    if l.startswith('VIOLATION') and 'replay=' in l:
                        rp = os.path.join(v, l.split('replay=')[1].split()[0])
                        try:
                            rv['replay'] = json.load(open(rp))
                        except Exception:
                            pass
        with lock:
            out[job['id']] = res
            print(job['id'], {pr: (rv.get('exit') if isinstance(rv, dict) else rv) for pr, rv in res.items()}, flush=True)
    sh(['git', '-C', '/repo', 'worktree', 'remove', '--force', r])
    shutil.rmtree(w, ignore_errors=True)


def main():
    jobs = json.load(open(sys.argv[1]))
    n = int(sys.argv[3]) if len(sys.argv) > 3 else 4
    q = queue.Queue()
    for j in jobs:
        q.put(j)
    out, lock = {}, threading.Lock()
    ts = [threading.Thread(target=worker, args=(k, q, out, lock)) for k in range(min(n, len(jobs)))]
    for t in ts:
        t.start()
    for t in ts:
        t.join()
    json.dump(out, open(sys.argv[2], 'w'), indent=1, default=str)
    sh(['git', '-C', '/repo', 'worktree', 'prune'])


if __name__ == '__main__':
    main()
