"""Per-property wiring: Lean modules and theorems, generated modules, correspondence runs, numeric oracles."""
import os, sys, json, copy
import numpy as np
HERE = os.path.dirname(os.path.abspath(__file__))
VERIF = os.path.dirname(HERE)
sys.path.insert(0, os.path.join(VERIF, 'harness'))
from qsccap import Capture
import inputs, corr_gen, corr_hand, oracles
from qsc import Qsc


class Ctx:
    def __init__(self, seed, tier):
        self.seed, self.tier = seed, tier
        self.rng = np.random.default_rng(seed)
        self._objs = {}

    @property
    def thorough(self):
        return self.tier == 'thorough'

    def objects(self, order=None, count=None, nphi=None, shear=False):
        """admissible seeded configurations, built under capture: list of (case, q, cap)"""
        count = count or (12 if self.thorough else 4)
        key = (order, count, nphi, shear)
        if key not in self._objs:
            out = []
            for c, _ in inputs.cases(self.seed * 1000 + 7 + hash((order, nphi)) % 97, count, order=order, nphi=nphi):
                with Capture() as cap:
                    q = Qsc(**c['kwargs'])
                    if shear and q.order == 'r3':
                        q.calculate_shear()
                out.append((c, q, cap))
            self._objs[key] = out
        return self._objs[key]

    def all_orders(self, count=None, shear=False):
        out = []
        for o in ('r1', 'r2', 'r3'):
            out += self.objects(o, count, shear=shear)
        return out


def corr_generated(modules, orders=('r1', 'r2', 'r3'), shear=False):
    def run(ctx):
        tot = dict(evaluations=0, disagreements=[], samples=[], distinct=0, unchecked=set(), max_rel=0.0)
        for o in orders:
            for c, q, cap in ctx.objects(o, shear=shear):
                r = corr_gen.correspond(q, cap, ctx.rng, modules=modules)
                tot['evaluations'] += r['compared']
                tot['distinct'] += 1 if r['compared'] else 0
                tot['disagreements'] += [dict(d, case=oracles.case_id(c)) for d in r['disagreements']]
                tot['unchecked'] |= set(r['unchecked'])
                tot['max_rel'] = max(tot['max_rel'], r['max_rel'])
                if len(tot['samples']) < 2:
                    tot['samples'].append(dict(kind='generated-model-vs-implementation', case=oracles.case_id(c), modules=r['modules'], definitions_compared=r['compared'], max_rel=r['max_rel']))
        tot['unchecked'] = sorted(tot['unchecked'])
        return tot
    return run


def corr_merge(*fs):
    def run(ctx):
        tot = dict(evaluations=0, disagreements=[], samples=[], distinct=0, unchecked=[], max_rel=0.0)
        for f in fs:
            r = f(ctx)
            tot['evaluations'] += r['evaluations']
            tot['disagreements'] += r['disagreements']
            tot['samples'] += r['samples'][:2]
            d = r.get('distinct', 0)
            tot['distinct'] += len(d) if isinstance(d, set) else d
            tot['unchecked'] += list(r.get('unchecked', []))
            tot['max_rel'] = max(tot['max_rel'], r.get('max_rel') or 0.0)
        return tot
    return run


def oracle_objs(fn, orders=('r1', 'r2', 'r3'), shear=False, **kw):
    def run(ctx):
        st = oracles.Stats()
        objs = []
        for o in orders:
            objs += ctx.objects(o, shear=shear)
        fn(objs, st, **kw) if kw else fn(objs, st)
        return st.out()
    return run


# ------------------------------------------------------------------------------------------------------------------
PROPS = {}

PROPS['C04'] = dict(
    lean=['QscProofs.C04'],
    theorems=['C04.r2_eq3', 'C04.r2_eq4', 'C04.r2_eq3_grid', 'C04.r2_eq4_grid', 'C04.r2_system_eq1', 'C04.r2_system_eq2',
              'C04.r2_solution_satisfies_odes', 'C04.G2_closed_form', 'C04.beta_1s_closed_form', 'C04.B20_statistics'],
    gen=['R2'],
    corr=corr_generated(['R2'], orders=('r2', 'r3')),
    oracle=oracle_objs(oracles.oracle_C04, orders=('r2', 'r3')),
    rule='seeded admissible configurations (named configurations deformed harmonic by harmonic, synthetic axes; all sign pairs; rs, zc, sigma0, I2, p2, B2s nonzero with probability 1/2); a case is distinct by its constructor arguments and non-trivial when the O(r^2) arrays are not constant',
    partial=['"to round-off relative to the conditioning of the linear system": the size of the floating-point residual is measured (oracle, bound 1e-13*cond), not proved',
             'np.linalg.solve is a parameter of the model: the theorems say that ANY solution of the assembled system satisfies the ODEs'],
)


def matches_known(k, failure):
    m = k.get('match', {})
    if m.get('clause') and m['clause'] != failure.get('clause'):
        return False
    return True


def reproduce_known(k, ctx):
    import findings
    fn = getattr(findings, k['replay'], None)
    return bool(fn and fn())


def replay(path):
    d = json.load(open(path))
    print(json.dumps(d, indent=1)[:3000])
    return 0
