"""Per-property wiring: Lean modules and theorems, generated modules, correspondence runs, numeric oracles."""
import os, sys, json, copy, zlib
import numpy as np
HERE = os.path.dirname(os.path.abspath(__file__))
VERIF = os.path.dirname(HERE)
sys.path.insert(0, os.path.join(VERIF, 'harness'))
from qsccap import Capture, LogCapture
import logging
import inputs, corr_gen, corr_hand, oracles
from qsc import Qsc


class Ctx:
    def __init__(self, seed, tier):
        self.seed, self.tier = seed, tier
        self.rng = np.random.default_rng(seed)
        self._objs = {}

    @property
    def thorough(self):
        return self.tier == 'thorough'

    def objects(self, order=None, count=None, nphi=None, shear=False):
        """admissible seeded configurations, built under capture: list of (case, q, cap)"""
        count = count or (12 if self.thorough else 4)
        key = (order, count, nphi, shear)
        if key not in self._objs:
            out = []
            for c, _ in inputs.cases(self.seed * 1000 + 7 + zlib.crc32(repr((order, nphi, shear)).encode()) % 97, count, order=order, nphi=nphi):
                with LogCapture(logging.WARNING) as lc:
                    with Capture() as cap:
                        q = Qsc(**c['kwargs'])
                        if shear and q.order == 'r3':
                            q.calculate_shear()
                cap.newton_warned = any('did not get close' in r.getMessage() for r in lc.records)
                out.append((c, q, cap))
            self._objs[key] = out
        return self._objs[key]

    def input_distribution(self):
        """what the seeded generator actually produced in this run (every object built through `objects`), by stratum"""
        from collections import Counter
        seen, d = set(), {k: Counter() for k in ('order', 'nfp', 'sG,spsi', 'nphi', 'kind', 'helicity!=0', 'asymmetric', 'I2!=0', 'p2!=0', 'sigma0!=0', 'B2s!=0', 'sparse harmonics', 'B0!=1', 'newton warned')}
        for lst in self._objs.values():
            for c, q, cap in lst:
                kw = c['kwargs']
                key = json.dumps(kw, sort_keys=True, default=str)
                if key in seen:
                    continue
                seen.add(key)
                d['order'][kw.get('order')] += 1; d['nfp'][int(kw.get('nfp', 1))] += 1; d['sG,spsi'][str((kw.get('sG', 1), kw.get('spsi', 1)))] += 1
                d['nphi'][int(kw.get('nphi', 0))] += 1; d['kind'][c.get('kind')] += 1
                d['helicity!=0'][bool(q.helicity != 0)] += 1; d['asymmetric'][bool(q.lasym)] += 1
                for nm in ('I2', 'p2', 'sigma0', 'B2s'):
                    d[nm + '!=0'][bool(kw.get(nm, 0) != 0)] += 1
                coef = [kw.get(a, []) for a in ('rc', 'zs', 'rs', 'zc')]
                d['sparse harmonics'][bool(any(len(v) > 1 and any(x == 0 for x in v[1:]) and any(x != 0 for x in v[1:]) for v in coef))] += 1
                d['B0!=1'][bool(kw.get('B0', 1.0) != 1.0)] += 1
                d['newton warned'][bool(getattr(cap, 'newton_warned', False))] += 1
        return dict(distinct_configurations=len(seen), strata={k: {str(a): b for a, b in v.items()} for k, v in d.items()})

    def all_orders(self, count=None, shear=False):
        out = []
        for o in ('r1', 'r2', 'r3'):
            out += self.objects(o, count, shear=shear)
        return out


def corr_generated(modules, orders=('r1', 'r2', 'r3'), shear=False):
    def run(ctx):
        tot = dict(evaluations=0, disagreements=[], samples=[], distinct=0, unchecked=set(), max_rel=0.0)
        for o in orders:
            for c, q, cap in ctx.objects(o, shear=shear):
                r = corr_gen.correspond(q, cap, ctx.rng, modules=modules)
                tot['evaluations'] += r['compared']
                tot['distinct'] += 1 if r['compared'] else 0
                tot['disagreements'] += [dict(d, case=oracles.case_id(c)) for d in r['disagreements']]
                tot['unchecked'] |= set(r['unchecked'])
                tot['max_rel'] = max(tot['max_rel'], r['max_rel'])
                if len(tot['samples']) < 2:
                    tot['samples'].append(dict(kind='generated-model-vs-implementation', case=oracles.case_id(c), modules=r['modules'], definitions_compared=r['compared'], max_rel=r['max_rel']))
        tot['unchecked'] = sorted(tot['unchecked'])
        return tot
    return run


def corr_merge(*fs):
    def run(ctx):
        tot = dict(evaluations=0, disagreements=[], samples=[], distinct=0, unchecked=[], max_rel=0.0)
        for f in fs:
            r = f(ctx)
            tot['evaluations'] += r['evaluations']
            tot['disagreements'] += r['disagreements']
            tot['samples'] += r['samples'][:2]
            d = r.get('distinct', 0)
            tot['distinct'] += len(d) if isinstance(d, set) else d
            tot['unchecked'] += list(r.get('unchecked', []))
            tot['max_rel'] = max(tot['max_rel'], r.get('max_rel') or 0.0)
        return tot
    return run


def oracle_objs(fn, orders=('r1', 'r2', 'r3'), shear=False, **kw):
    def run(ctx):
        st = oracles.Stats()
        objs = []
        for o in orders:
            objs += ctx.objects(o, shear=shear)
        fn(objs, st, **kw) if kw else fn(objs, st)
        return st.out()
    return run


# ------------------------------------------------------------------------------------------------------------------
import thmlist
import core as _core


def thms(*modules):
    out = []
    for m in modules:
        out += thmlist.theorems(thmlist.module_path(_core.LEAN, m))
    return out


def eqv_theorems(mods):
    """expected equivariance theorems (Spec/eqv_expected.json): Eqv.<Mod>.<def>_eqv"""
    exp = json.load(open(os.path.join(VERIF, 'Spec', 'eqv_expected.json')))['modules']
    return ['Eqv.%s.%s_eqv' % (m, d) for m in mods for d in exp[m]['proved']]


def corr_hand_kernels(names):
    def run(ctx):
        rng = ctx.rng
        rs = []
        objs = [q for _, q, _ in ctx.all_orders(count=2 if not ctx.thorough else 5, shear=True)]
        for nm in names:
            if nm == 'specdiff':
                ns = list(range(1, 201)) if ctx.thorough else list(range(1, 33)) + [int(x) for x in rng.integers(33, 201, size=6)]
                rs.append(corr_hand.corr_specdiff(rng, ns, ((0.0, 2 * np.pi), (0.3, 1.7), (-2.0, 5.0)) if ctx.thorough else ((0.0, 2 * np.pi), (0.3, 1.7))))
            elif nm == 'interp':
                rs.append(corr_hand.corr_interp(rng, 120 if ctx.thorough else 30))
            elif nm == 'newton':
                rs.append(corr_hand.corr_newton(rng, 180 if ctx.thorough else 36))
            elif nm == 'helicity':
                rs.append(corr_hand.corr_helicity(rng, objs, extra=120 if ctx.thorough else 24))
            elif nm == 'axis':
                rs.append(corr_hand.corr_axis(rng, objs))
            elif nm == 'tofourier':
                rs.append(corr_hand.corr_tofourier(rng, 100 if ctx.thorough else 24))
            elif nm == 'rsing':
                rs.append(corr_hand.corr_rsing(rng, [q for q in objs if q.order != 'r1'], extra=200 if ctx.thorough else 40))
            elif nm == 'fmin':
                rs.append(corr_hand.corr_fmin(rng, 100 if ctx.thorough else 25))
            elif nm == 'vmec':
                rs.append(corr_hand.corr_vmec(rng, objs))
            elif nm == 'shear':
                rs.append(corr_hand.corr_shear(rng, objs))
            elif nm == 'dof':
                rs.append(corr_hand.corr_dof(rng, 40 if ctx.thorough else 8))
        return corr_hand.merge(rs)
    return run


def corr_diag_sequences(ctx):
    import corr_diag
    objs = []
    for o in ('r1', 'r2', 'r3'):
        objs += ctx.objects(o, count=1 if not ctx.thorough else 3, nphi=15)
    q = Qsc.from_paper('precise QH', nphi=25)     # sentinel-bearing singularity profile
    objs.append((dict(kind='named', name='precise QH', kwargs=dict(name='precise QH', nphi=25)), q, None))
    r = corr_diag.run(ctx.rng, objs, nseq=4 if ctx.thorough else 2, seqlen=8 if ctx.thorough else 5, heavy=ctx.thorough)
    ctx.diag_failures = r['failures']
    return dict(evaluations=r['evaluations'], disagreements=r['disagreements'], samples=r['samples'], distinct=r['distinct'],
                unchecked=['not executable in this sandbox: ' + x for x in r.get('not_executable', [])])


def oracle_diag(ctx):
    fs = list(getattr(ctx, 'diag_failures', []))
    # results do not depend on which calls came before - across objects too (a module-level or default-argument store)
    st = oracles.Stats()
    try:
        oracles.export_independence([x for o in ('r1', 'r2') for x in ctx.objects(o, count=2, nphi=15)], st)
    except Exception:
        pass
    fs += st.failures
    return fs, dict(evaluations=len(fs) + 1 + st.evaluations, distinct=1 + len(st.distinct), samples=[], clauses=['solution attribute changed by a diagnostic', 'result depends on the call history'])


def oracle_multi(*fns, orders=('r1', 'r2', 'r3'), shear=False, count=None):
    def run(ctx):
        st = oracles.Stats()
        objs = []
        for o in orders:
            objs += ctx.objects(o, count=count, shear=shear)
        for fn in fns:
            fn(objs, st)
        # every property quantifies over objects however they were reached: a reused object must equal a fresh one
        hobjs = [o_ for o_ in objs if o_[0].get('kwargs', {}).get('order') in orders][:: max(1, len(objs) // (10 if ctx.thorough else 5))]
        oracles.oracle_history(hobjs, st, seed=ctx.seed)
        return st.out()
    run.fns = fns
    return run


def oracle_kernels(ctx):
    st = oracles.Stats()
    oracles.oracle_C20(st, seed=ctx.seed, thorough=ctx.thorough)
    oracles.oracle_newton(st, ctx.seed, 80 if ctx.thorough else 20)
    return st.out()


RULE = ('seeded admissible configurations from one PRNG (VERIF_SEED): the 20 named configurations deformed harmonic by harmonic and synthetic axes with nfp 1..5, '
        'all sign pairs, rs/zc/sigma0/I2/p2/B2s nonzero with probability 1/2, nphi in {15,21,25,31}; rejected unless R0 > 0, curvature bounded away from 0 and the '
        'first-order solve converged at nphi and at 2 nphi + 1 with iota within 1 %; a case is distinct by its constructor arguments and non-trivial when its profiles are not constant')
CONTINUUM = ('continuum (differential-field) theorems read np.matmul(d_d_varphi, .) as a derivation; on the grid they hold up to the discretisation error of the '
             'pseudo-spectral derivative, which is measured by the oracle on a resolution ladder (n, 2n+1, 4n+3), not proved')

PROPS = {}

PROPS['C01'] = dict(
    lean=['QscProofs.C01'], theorems=['C01.r1', 'C01.r2_J_R1', 'C01.r2_TH_PH', 'C01.r2_comb', 'C01.r3_J_avg', 'C01.sigma_residual_eq', 'C01.sigmaEq_of_residual',
                                      'C01.axis_outputs', 'C01.rel_odes', 'C01.rel_eq3', 'C01.rel_eq4', 'C01.r3_outputs',
                                      'NearAxis.C01_r1', 'NearAxis2.C01_r2_J_R1', 'NearAxis4.C01_r2_TH_PH', 'NearAxis3.C01_r2_comb', 'NearAxis5.C01_r3_J_avg'],
    gen=['Axis', 'Sigma', 'R1d', 'R2', 'R3'],
    corr=corr_generated(['Axis', 'Sigma', 'R1d', 'R2', 'R3']),
    oracle=oracle_multi(oracles.oracle_C01),
    rule=RULE, partial=[CONTINUUM, 'the Newton solve and np.linalg.solve are parameters: the theorems take the sigma-equation and the two linear-system equations as hypotheses (their residuals are measured by C02/C04)',
                        'the r2 radial clause is stated as d_theta[R]_2 - 3[TH]_3 = 0 (the undetermined third-order tangential displacement Z3 eliminated): [R]_2 and [TH]_3 do not vanish separately for a second-order construction'])

PROPS['C02'] = dict(
    lean=['QscProofs.C02', 'QscProofs.C20Newton'], theorems=thms('QscProofs.C02') + ['Hand.Newton.newton_sound', 'Hand.Newton.iter_best_decreases'],
    gen=['Sigma'], corr=corr_merge(corr_generated(['Sigma'], orders=('r1',)), corr_hand_kernels(['newton'])),
    oracle=lambda ctx: (lambda st: (oracles.oracle_C02(ctx.all_orders(), st), oracles.oracle_C02_wild(st, ctx.seed, 120 if ctx.thorough else 30), oracles.oracle_newton(st, ctx.seed, 64 if ctx.thorough else 24), oracles.oracle_C02_shooting(ctx.objects('r1'), st) if ctx.thorough else None, oracles.oracle_history(ctx.objects('r1')[:3], st, seed=ctx.seed), st.out())[-1])(oracles.Stats()),
    rule=RULE, partial=['agreement of iota with an independent shooting solution of the continuous ODE as nphi grows is analysis: decided numerically (thorough tier), not proved',
                        'convergence of Newton on a given input is not proved: the theorem says a non-converged solve is never silent'])

PROPS['C03'] = dict(
    lean=['QscProofs.C03', 'QscProofs.C03Axis'], theorems=thms('QscProofs.C03', 'QscProofs.C03Axis'),
    gen=['Axis', 'R1d'], corr=corr_merge(corr_generated(['Axis', 'R1d'], orders=('r1',)), corr_hand_kernels(['axis'])),
    oracle=oracle_multi(oracles.oracle_C03, orders=('r1', 'r2')),
    rule=RULE, partial=[CONTINUUM, 'Frenet-Serret equations on the grid and the second-order quadrature of the Boozer angle are measured; min_R0 relies on the contract of scipy minimize_scalar (Brent)'])

PROPS['C04'] = dict(
    lean=['QscProofs.C04'], theorems=thms('QscProofs.C04'), gen=['R2'],
    corr=corr_generated(['R2'], orders=('r2', 'r3')), oracle=oracle_multi(oracles.oracle_C04, orders=('r2', 'r3')),
    rule=RULE, partial=['"to round-off relative to the conditioning of the linear system": the floating-point residual is measured (bound 1e-13*cond), not proved',
                        'np.linalg.solve is a parameter of the model: ANY solution of the assembled system satisfies the ODEs'])

EQV_ALL = ['Axis', 'R1d', 'GradB', 'R2', 'Mercier', 'GGB', 'R3', 'RSing']
EQV_PARTIAL = ['the equivariance theorems are stated for the formula stages (every generated definition); the instances for the concrete periodic grid and the concrete spectral matrix (cyclic shift, toroidal reversal, k-fold repetition) are theorems of QscProofs/EqvGrid.lean; only fourier_minimum enters as a parameter with stated homogeneity/invariance hypotheses',
               'equality of the two COMPUTED Newton solutions / linear solves needs local uniqueness and convergence: measured by the oracle (1e-7), not proved']

PROPS['C05'] = dict(
    lean=['QscProofs.Eqv', 'QscProofs.C20Spec', 'QscProofs.C03Axis', 'QscProofs.EqvGrid', 'QscProofs.C05Sigma', 'QscProofs.C06Sigma', 'QscProofs.C13Cyc', 'QscProofs.C05Axis'], theorems=eqv_theorems(EQV_ALL) + ['C05Sigma.' + t for t in ('sig_shiftState', 'residual_shift_covariant', 'solution_shift', 'solution_shift_iff', 'gridD_comm_shift', 'residual_shift_covariant_grid', 'solution_shift_grid')] + ['C06Sigma.' + t for t in ('gridDw_comm_shift', 'residual_shift_covariant₂', 'residual_shift_covariant_gridw', 'solution_shift_gridw', 'gridDw_not_comm_shift')] + ['C20Spec.toep_circulant', 'C03Axis.f0_periodic', 'EqvGrid.toep_shift', 'EqvGrid.gridOps_lawful', 'EqvGrid.curvature_shift', 'EqvGrid.X2c_shift', 'EqvGrid.DMerc_times_r2_shift', 'C13Cyc.counter_rotate', 'C13Cyc.helicity_shift', 'C05Axis.f0_origin_shift', 'C05Axis.f1_origin_shift', 'C05Axis.f2_origin_shift', 'C05Axis.f3_origin_shift'],
    gen=EQV_ALL, eqv=EQV_ALL, corr=corr_merge(corr_generated(['Axis', 'R1d', 'R2', 'R3']), corr_hand_kernels(['helicity', 'axis'])), oracle=oracle_multi(oracles.oracle_C05, lambda objs, st: oracles.oracle_helicity_kernel(st, 5, 12)),
    rule=RULE, partial=EQV_PARTIAL + ['the first-order solve: the cyclically shifted solution (same iota, sigma0 taken at the new origin) solves the shifted discrete sigma equation - proved for the generated residual and the concrete d/dvarphi matrix with its (shifted) non-constant weight (C05Sigma, C06Sigma); that Newton FINDS that root from the shifted initial guess is the measured part (the oracle checks both descriptions converge to it)', 'phi, varphi and (for helicity != 0) the *_untwisted coefficients are coordinate-dependent: they follow explicit laws (checked by the oracle), not a cyclic shift'])
PROPS['C06'] = dict(
    lean=['QscProofs.Eqv', 'QscProofs.C13', 'QscProofs.EqvGrid', 'QscProofs.C06Sigma', 'QscProofs.C13Cyc', 'QscProofs.C06Axis'], theorems=eqv_theorems(EQV_ALL) + ['C06Sigma.' + t for t in ('gridDw_rep', 'residual_repetition_covariant', 'solution_repetition', 'residual_repetition_covariant_grid', 'solution_repetition_grid', 'resForm_repetition')] + ['C13.counter_mul_four', 'EqvGrid.toep_rep', 'EqvGrid.sum_comp_modNat', 'EqvGrid.linearMap_eq_zero_of_modes', 'EqvGrid.curvature_repetition', 'EqvGrid.X2c_repetition', 'EqvGrid.DMerc_times_r2_repetition', 'C13Cyc.counter_rep', 'C13Cyc.helicity_repetition', 'C13Cyc.helicity_nfp_invariant', 'C06Axis.sumRange_interleave', 'C06Axis.f0_interleave', 'C06Axis.f1_interleave', 'C06Axis.f2_interleave', 'C06Axis.f3_interleave'],
    gen=EQV_ALL, eqv=EQV_ALL, corr=corr_merge(corr_generated(['Axis', 'R1d', 'R2']), corr_hand_kernels(['helicity', 'axis'])), oracle=oracle_multi(oracles.oracle_C06, lambda objs, st: oracles.oracle_helicity_kernel(st, 6), count=6),
    rule=RULE + '; nfp = k compared with nfp = 1 at k*nphi for odd k', partial=EQV_PARTIAL)
PROPS['C07'] = dict(
    lean=['QscProofs.Eqv', 'QscProofs.C15', 'QscProofs.C13', 'QscProofs.C13Cyc', 'QscProofs.C07Axis', 'QscProofs.C20Spec', 'QscProofs.EqvGrid', 'QscProofs.C05Sigma', 'QscProofs.C06Sigma'], theorems=eqv_theorems(EQV_ALL) + ['C05Sigma.' + t for t in ('residual_reversal_covariant', 'solution_reversal', 'residual_mirror_covariant', 'residual_reversal_mirror_covariant', 'gridD_anticomm_rev', 'residual_reversal_covariant_grid')] + ['C06Sigma.gridDw_anticomm_rev', 'C06Sigma.residual_reversal_covariant_gridw'] + ['EqvGrid.toep_neg', 'EqvGrid.curvature_reversal', 'EqvGrid.X2c_reversal', 'EqvGrid.Z2c_reversal', 'EqvGrid.d2_l_d_phi2_reversal', 'EqvGrid.DMerc_times_r2_reversal', 'C15.lasym_iff', 'C15.lasym_false_iff', 'C13.counter_flipZ', 'C13.counter_reverse', 'C13Cyc.counter_field_reversal', 'C07Axis.f0_reversal', 'C07Axis.f1_reversal', 'C07Axis.f2_reversal', 'C07Axis.f3_reversal', 'C07Axis.f0_mirror', 'C20Spec.toep_antisymm'],
    gen=EQV_ALL, eqv=EQV_ALL, corr=corr_merge(corr_generated(['Axis', 'R1d', 'GradB', 'R2', 'Mercier', 'GGB', 'R3', 'RSing']), corr_hand_kernels(['vmec', 'helicity', 'axis'])),
    oracle=oracle_multi(oracles.oracle_C07, lambda objs, st: oracles.oracle_helicity_kernel(st, 7)), rule=RULE, partial=EQV_PARTIAL)
PROPS['C08'] = dict(
    lean=['QscProofs.Eqv', 'QscProofs.EqvUse', 'QscProofs.C06Sigma', 'QscProofs.C07Axis'], theorems=eqv_theorems(EQV_ALL) + ['C07Axis.f0_scale', 'C07Axis.f1_scale', 'EqvUse.DMerc_units', 'C06Sigma.rhs_scalePar', 'C06Sigma.residual_scale_invariant', 'C06Sigma.solution_scale_iff'],
    gen=EQV_ALL, eqv=EQV_ALL, corr=corr_merge(corr_generated(['Axis', 'R1d', 'GradB', 'R2', 'Mercier', 'GGB', 'R3', 'RSing']), corr_hand_kernels(['axis'])),
    oracle=oracle_multi(oracles.oracle_C08), rule=RULE, partial=EQV_PARTIAL[1:] + ['r_singularity: the root selection is a hand model; its scaling follows from the scaling of the coefficients (proved) given that the roots scale (contract of polyroots)'])

PROPS['C09'] = dict(
    lean=['QscProofs.C09', 'QscProofs.C09Frob', 'QscProofs.C09Axis'], theorems=thms('QscProofs.C09', 'QscProofs.C09Frob', 'QscProofs.C09Axis'), gen=['GradB', 'GradBCart', 'BfieldCyl', 'BfieldCart'],
    corr=corr_generated(['GradB', 'GradBCart', 'BfieldCyl', 'BfieldCart']), oracle=oracle_multi(oracles.oracle_C09),
    rule=RULE, partial=[CONTINUUM, 'equality of the Frobenius norm in the three bases is proved for the frame generated from init_axis (C09Axis, composing C09Frob with C03.frame_orthonormal_rh) at every point of positive speed and curvature, in exact real arithmetic'])

PROPS['C10'] = dict(
    lean=['QscProofs.C10', 'QscProofs.C10gen'], theorems=thms('QscProofs.C10') + thms('QscProofs.C10gen.Alt0', 'QscProofs.C10gen.Alt1', 'QscProofs.C10gen.Alt2', 'QscProofs.C10gen.Sym12', 'QscProofs.C10gen.Div', 'QscProofs.C10gen.Sym23', 'QscProofs.C10gen.Harmonic'),
    gen=['GGB', 'GGBCart'], corr=corr_generated(['GGB', 'GGBCart'], orders=('r2', 'r3')), oracle=oracle_multi(oracles.oracle_C10, orders=('r2', 'r3')),
    rule=RULE, partial=[CONTINUUM, 'the certificates of C10gen were found by a CAS for the formulas of the pinned tree; a harmless algebraic rewrite keeps them valid (they end in ring), a different but equally correct derivation may need new certificates',
                        'basis clause (cylindrical/Cartesian variants): known finding K1'])

C11VOL = ['C11Vol.' + t for t in ('inv_sq_expansion_ring', 'quot_expansion_ring', 'inv_sq_expansion', 'Avg.avg_quotC2', 'Avg.avg_quotT', 'd2V_matches_code', 'd2V_matches_code_neg', 'Par.integrand_taylor_bound', 'Par.thetaAvg_integrand_expansion', 'Par.surfAvg_expansion', 'Par.surfAvg_peano', 'Par.dVdpsi_hasDerivWithinAt', 'd2V_code_is_derivative', 'd2V_code_is_derivative_neg')]
PROPS['C11'] = dict(
    lean=['QscProofs.C11', 'QscProofs.C11Vol', 'QscProofs.C01'], theorems=thms('QscProofs.C11') + C11VOL + ['C01.r3_J_avg', 'C01.r2_J_R1'], gen=['Mercier', 'R2', 'R3'],
    corr=corr_generated(['Mercier'], orders=('r2', 'r3')), oracle=oracle_multi(oracles.oracle_C11, oracles.oracle_C11_geometric, oracles.oracle_C01, orders=('r2', 'r3')),
    rule=RULE, partial=[CONTINUUM, "the geometric clause (d2_volume_d_psi2 = V'') is the chain: Boozer Jacobian of the constructed surfaces = (G + iota I)/B^2 through third order ([J]_2 = 0, <[J]_3> = 0: C01, proved) and C11Vol.d2V_code_is_derivative: the generated d2_volume_d_psi2 IS the one-sided derivative at psi = 0+ of dV/dpsi = 4 pi^2 <(G + iota I)/B^2> with the real (theta, phi) integrals (proved, O(r^3) remainder bound included); identifying the d_l_d_phi-weighted B20_mean of the code with the Boozer-angle mean of B20 is a hypothesis (hmean) and the whole chain is additionally checked numerically by integrating the Jacobian of the returned position vector"])

PROPS['C12'] = dict(
    lean=['QscProofs.C12'], theorems=thms('QscProofs.C12') + ['RSing.g_coeffs_are_triple_product'], gen=['RSing'],
    corr=corr_merge(corr_generated(['RSing'], orders=('r2', 'r3')), corr_hand_kernels(['rsing'])), oracle=oracle_multi(oracles.oracle_C12, orders=('r2', 'r3')),
    rule=RULE, partial=['completeness ("smallest r > 0 over all theta") depends on numpy polyroots returning all roots and on the 1e-5/1e-7/1e-13 tolerance filters: C12.reported_le_singular proves it under explicit hypotheses on the roots; the rest is measured against a direct scan over theta'])

PROPS['C13'] = dict(
    lean=['QscProofs.C13', 'QscProofs.C13Cyc', 'QscProofs.C03'], theorems=thms('QscProofs.C13') + ['C13Cyc.counter_rotate', 'C13Cyc.counter_rep', 'C13Cyc.helicity_shift', 'C13Cyc.helicity_repetition', 'C13Cyc.helicity_nfp_invariant', 'C13Cyc.counter_field_reversal', 'C03.untwist_h0', 'C03.untwist_same_surface_1'], gen=['R1d', 'R2', 'R3', 'BmagCyl', 'BmagBoozer'],
    corr=corr_merge(corr_generated(['R1d', 'BmagCyl', 'BmagBoozer']), corr_hand_kernels(['helicity'])), oracle=lambda ctx: (lambda st: (oracles.oracle_C13(ctx.all_orders(), st), oracles.oracle_C13_signs(st, ctx.thorough), oracles.oracle_C13_synthetic(st, ctx.seed, 60 if ctx.thorough else 15), oracles.oracle_helicity_kernel(st, ctx.seed, 60 if ctx.thorough else 24), oracles.oracle_history(ctx.all_orders()[::3], st, seed=ctx.seed), st.out())[-1])(oracles.Stats()),
    rule=RULE, partial=['the cubic-spline interpolants (nu_spline, B20_spline) are parameters with the contract stated in C13.Bmag_agree; "helicity = winding number" needs the grid to resolve the rotation (consecutive quadrants differ by at most one step): explicit hypothesis of C13.counter_winding'])

PROPS['C14'] = dict(
    lean=['QscProofs.C14', 'QscProofs.C14Fourier'], theorems=thms('QscProofs.C14') + ['C14Fourier.roundtrip', 'C14Fourier.kernel', 'C14Fourier.D_grid'], gen=['F2C1', 'F2CRes', 'ToRZ'],
    corr=corr_merge(corr_generated(['F2C1', 'F2CRes', 'ToRZ']), corr_hand_kernels(['tofourier'])), oracle=oracle_multi(oracles.oracle_C14),
    rule=RULE + '; Fourier round trip on random grids of every parity with mode ranges at and beyond the Nyquist index',
    partial=['cubic-spline interpolation error (1e-5, nphi^-3), adequacy of the root bracket +-1/nfp and agreement with the Fortran reference files are numerical: measured, not proved (the Fortran files are compared by the repository test-suite)'])

PROPS['C15'] = dict(
    lean=['QscProofs.C15'], theorems=thms('QscProofs.C15'), gen=[],
    corr=corr_hand_kernels(['vmec']), oracle=oracle_multi(oracles.oracle_C15),
    rule=RULE + '; export after a set_dofs history with probability 1/2; ntheta in {6,7,10}, overrides of mpol/ntor with probability 0.4',
    partial=['Fortran namelist syntax is checked by parsing the written file with a minimal namelist reader (harness), not by a theorem'])

PROPS['C16'] = dict(
    lean=['QscProofs.C16', 'QscProofs.C03Axis'], theorems=['C16.dofs_layout', 'C16.set_get_roundtrip', 'C16.get_set_roundtrip', 'C16.set_wrong_length', 'C16.history_eq_fresh', 'C16.hpad_needed', 'C16.snapshot_padInvariant',
                                      'C16.no_caller_alias', 'C16.view_alias', 'C16.ctor_validation', 'C16.even_nphi_promoted', 'C16.construct_good', 'C16.advertised_accepted', 'C16.branches_disjoint',
                                      'C16.else_raises', 'C16.caller_kwargs_win', 'C16.returns_constructor_call', 'C16.no_problems', 'C16.accepted_not_advertised', 'C16.advertised_subset_accepted', 'C16.advertised_ne_accepted',
                                      'C03Axis.f0_append_zero', 'C03Axis.f1_append_zero', 'C03Axis.f2_append_zero', 'C03Axis.f3_append_zero'],
    gen=['Configs'], corr=corr_hand_kernels(['dof']),
    oracle=lambda ctx: oracles.oracle_C16([x for o in ('r1', 'r2', 'r3') for x in ctx.objects(o, count=1 if not ctx.thorough else 3, nphi=15)], nhist=2 if not ctx.thorough else 4, hlen=4 if not ctx.thorough else 8, n_named=None if ctx.thorough else 5, seed=ctx.seed).out(),
    rule='seeded histories over {set_dofs(x) with later mutation of x, change_nfourier up/down, calculate(), get_dofs() with mutation of the result, set_dofs(get_dofs())} on objects of every order; named configurations with overrides; invalid names and sign flags',
    partial=['history_eq_fresh needs the pipeline to be invariant under appending zero harmonics (change_nfourier to a larger size does not recalculate): proved for the axis Fourier sums (C03Axis.f*_append_zero), assumed for the rest of the pipeline (which reads only those sums)',
             'advertised = accepted: known finding K2 (negation proved: C16.advertised_ne_accepted)'])

PROPS['C17'] = dict(
    lean=['QscProofs.C17'], theorems=thms('QscProofs.C17'), gen=['Effects'],
    corr=corr_diag_sequences, oracle=oracle_diag,
    rule='seeded call sequences over the evaluation/plotting/export/diagnostic methods (Agg backend) on objects of every order and on a configuration whose singularity profile carries the sentinel; every attribute snapshotted bit for bit around every call',
    partial=['the effect table is extracted by a conservative intra-/inter-procedural AST alias analysis of the current source; that every method respects its extracted summary is checked dynamically (observed changes within the summary), not proved',
             'plot_axis needs mayavi, which is not installed in this sandbox: covered statically only'])

PROPS['C18'] = dict(
    lean=['QscProofs.C16', 'QscProofs.C20Spec', 'QscProofs.C20Interp', 'QscProofs.C18Conv', 'QscProofs.C18Trap'], theorems=['C18Trap.' + t for t in ('trapezoid_panel_error', 'trapezoid_cumulative_error', 'trapezoid_composite_error', 'varphiCum_trapSum', 'varphiCum_error', 'second_order', 'second_order_index', 'panel_bound_attained')] + ['C16.even_nphi_promoted', 'C20Spec.D_exact_sin', 'C20Spec.D_exact_cos', 'C20Interp.interp_exact_sin', 'C20Interp.interp_exact_cos'] + ['C18Conv.' + t for t in ('D_exact_trigPoly', 'D_resolution_independent', 'mean_exact', 'quadrature_exact', 'quadrature_resolution_independent', 'mean_resolution_independent', 'integral_trigPoly', 'quadrature_eq_integral', 'interp_exact_trigPoly', 'interp_resolution_independent', 'trigPoly_mul_degree', 'D_exact_mul', 'mean_mul_resolution_independent', 'interp_exact_mul')],
    gen=['Axis', 'R1d', 'R2', 'Mercier'], corr=corr_merge(corr_generated(['Axis', 'R1d', 'Mercier'], orders=('r2',)), corr_hand_kernels(['specdiff', 'dof', 'fmin', 'interp'])), oracle=oracle_multi(oracles.oracle_C18),
    rule=RULE + '; each case rebuilt with nphi - 1 (even) and on the ladder 31, 63, 127',
    partial=['the quantitative convergence statements (1e-8 once resolved; second order for grid extrema and the trapezoid angle) are analysis: decided numerically on a resolution ladder and labelled as such (level "other" for that clause); proved: the promotion of even nphi, and (C18Conv) that on band-limited profiles every discrete operation the code uses - differentiation matrix, rectangle-rule period integrals and means (equal to the true integral), the trigonometric interpolant on which extrema are located, and pointwise products up to the aliasing limit (exact discrete Leibniz rule) - is exact and hence independent of the resolution, which is the structural reason for spectral convergence; the tail beyond the band limit and the nonlinear solves are the measured part; the second-order clause for the trapezoid-integrated Boozer angle is proved (C18Trap: the cumulative trapezoid sum that `varphiCum` models differs from the integral by at most j M h^3/12, i.e. L^3 M/(12 n^2) over a period, M a bound on the second derivative of dl/dphi; the constant is attained)'])

PROPS['C19'] = dict(
    lean=['QscProofs.C19', 'QscProofs.C19Origin', 'QscProofs.Eqv'], theorems=thms('QscProofs.C19') + ['C19Origin.' + t for t in ('shifted_period_integral', 'ratio_origin_independent_of_c_zero', 'ratio_derivative', 'witness_ratio', 'origin_dependence_witness', 'shifted_description_ratio', 'shifted_description_witness')] + eqv_theorems(['Shear']),
    gen=['Shear'], eqv=['Shear'], corr=corr_merge(corr_generated(['Shear'], orders=('r3',), shear=True), corr_hand_kernels(['shear'])),
    oracle=oracle_multi(oracles.oracle_C19, orders=('r3',), count=3),
    rule=RULE, partial=['field reversal: known finding K3 (the equivariance engine finds no law for Z31c, Z31s, X31c, X31s, Y31s, LamTilde: they mix terms of different parity under (sG, spsi, I2) -> -(sG, spsi, I2))',
                        'origin- and nfp-independence of the non-symmetric (trapezoid) branch, continuity across the branch switch and convergence hold to discretisation error: measured on a resolution ladder'])

PROPS['C20'] = dict(
    lean=['QscProofs.C20Spec', 'QscProofs.C20Interp', 'QscProofs.C20InterpEven', 'QscProofs.C20Fmin', 'QscProofs.C20Newton'],
    theorems=thms('QscProofs.C20Spec', 'QscProofs.C20Interp', 'QscProofs.C20InterpEven', 'QscProofs.C20Fmin', 'QscProofs.C20Newton'),
    gen=[], corr=corr_hand_kernels(['specdiff', 'interp', 'fmin', 'newton']), oracle=oracle_kernels,
    rule='spectral matrix for every n in 1..200 (thorough) / 1..32 + seeded larger n (quick) on several intervals; interpolation at random abscissae incl. exact nodes; fourier_minimum on smooth, constant, near-constant, random and tied data; Newton on smooth systems, perturbed Jacobians, stalls, NaN/inf episodes (scripted residual streams)',
    partial=['the node guard eps*(D==0) of fourier_interpolation is a floating-point device: at a node the exact-arithmetic model divides by zero, so reproduction of the samples AT the nodes is measured, not proved (away from nodes exactness is proved for both parities: C20Interp, C20InterpEven)', 'scipy minimize_scalar (Brent) is a parameter with the contract "result <= f(middle of the bracket)"', 'convergence of Newton on smooth well-posed systems is analysis: checked on seeded systems'])


def matches_known(k, failure):
    m = k.get('match', {})
    if m.get('clause') and m['clause'] != failure.get('clause'):
        return False
    return True


def reproduce_known(k, ctx):
    import findings
    fn = getattr(findings, k['replay'], None)
    return bool(fn and fn())


def replay(path):
    """re-evaluate the recorded failing input on the current tree: exit 1 if the recorded clause still fails, 0 if it passes"""
    d = json.load(open(path if os.path.exists(path) else os.path.join(VERIF, path)))
    prop = d['property']
    print('replay of %s (%s)' % (prop, d.get('kind')))
    if d.get('kind') != 'failing-input':
        print('no concrete failing input was recorded; broken obligations at the time:')
        for b in d.get('broken', []):
            print('  -', b['kind'], b['what'], '|', b['detail'][:300])
        print('re-run `./check %s` to see whether they still break' % prop)
        return 0
    f = d['failure']
    case = f.get('case', {})
    kw = case.get('kwargs', {})
    print('clause :', f['clause']); print('case   :', json.dumps(case)[:1500]); print('recorded: observed %r, bound %r, detail %r' % (f.get('observed'), f.get('bound'), f.get('detail')))
    ctor = {'rc', 'zs', 'rs', 'zc', 'nfp', 'etabar', 'sigma0', 'B0', 'I2', 'sG', 'spsi', 'nphi', 'B2s', 'B2c', 'p2', 'order'}
    fns = getattr(PROPS[prop].get('oracle'), 'fns', None)
    if fns and kw and set(kw) <= ctor:
        with LogCapture(logging.WARNING) as lc:
            with Capture() as cap:
                q = Qsc(**kw)
                if prop == 'C19' and q.order == 'r3':
                    q.calculate_shear()
        cap.newton_warned = any('did not get close' in r.getMessage() for r in lc.records)
        st = oracles.Stats()
        for fn in fns:
            fn([(dict(kind=case.get('kind'), name=case.get('name'), kwargs=kw), q, cap)], st)
        fails = [x for x in st.failures if x['clause'] == f['clause']]
        for x in fails[:3]:
            print('STILL FAILS: observed %r > bound %r  %r' % (x['observed'], x['bound'], x.get('detail')))
        if not fails:
            print('the clause now holds on this input (worst/bound = %r)' % st.worst.get(f['clause']))
        return 1 if fails else 0
    print('this replay is re-evaluated by re-running the check with the recorded seed: VERIF_SEED=%s ./check %s --tier %s' % (d.get('seed'), prop, d.get('tier')))
    return 0
