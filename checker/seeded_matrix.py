#!/usr/bin/env python3
"""Print the seeded-change matrix (DESIGN.md section 8) from /verif/seeded/*/meta.json as markdown."""
import json, glob, os, re

VERIF = os.path.dirname(os.path.dirname(os.path.abspath(__file__)))


def first_line(patch):
    files = re.findall(r'^\+\+\+ b/(\S+)', patch, re.M)
    return ', '.join(sorted(set(os.path.basename(f) for f in files)))


def main():
    print('| change | file(s) touched | what it needs to manifest (author\'s note, abridged) | checks run | caught by (exit 1) | with a concrete failing input | obligations broken |')
    print('|---|---|---|---|---|---|---|')
    for d in sorted(glob.glob(os.path.join(VERIF, 'seeded', '*'))):
        if not os.path.exists(os.path.join(d, 'meta.json')):
            continue
        m = json.load(open(os.path.join(d, 'meta.json')))
        patch = open(os.path.join(d, 'patch.diff')).read()
        note = ' '.join(m.get('what_and_what_it_needs_to_manifest', '').split())
        note = re.sub(r'[|]', '/', note)[:260]
        broken = []
        for p, v in m['checks_run'].items():
            if isinstance(v, dict):
                for b in v.get('broken', [])[:3]:
                    broken.append(p + ':' + b.split(':', 1)[0] + ':' + b.split(':', 1)[1][:40] if ':' in b else b)
        print('| %s | %s | %s | %s | %s | %s | %s |' % (m['id'], first_line(patch), note, ' '.join(m['checks_run']), ' '.join(m['caught_by']) or '—',
                                                    ' '.join(m['caught_with_failing_input']) or '—', '; '.join(broken)[:200] or '—'))


if __name__ == '__main__':
    main()
