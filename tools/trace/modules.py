"""Which functions of pyQSC are translated (layer F of DESIGN.md), and with which hand-modelled holes.

Every entry is executed from the current source text; a `skip` entry names a statement (by the text it
starts with) that belongs to a hand-written model (layer A) and the fresh symbols its targets become.
Anything else the translator meets and cannot express aborts translation (a broken tie).
"""
from expr import E

AXIS_ARRS = ['R0', 'Z0', 'R0p', 'Z0p', 'R0pp', 'Z0pp', 'R0ppp', 'Z0ppp']

COMMON_BR = {'self.helicity == 0': False}


def variants_h(cfg):
    """two traces: helicity == 0 and helicity != 0"""
    out = {}
    for tag, dec in (('h0', True), ('hN', False)):
        c = dict(cfg)
        c['branches'] = dict(cfg.get('branches', {}))
        c['branches']['self.helicity == 0'] = dec
        out[tag] = c
    return out


MODULES = {}


def module(name, mod, fname, cfg=None, args=(), kwargs=None, locals_out=(), variants=None, ret_names=None):
    MODULES[name] = dict(name=name, mod=mod, fname=fname, cfg=cfg or {}, args=args, kwargs=kwargs or {},
                         locals_out=tuple(locals_out), variants=variants, ret_names=ret_names)


# ---------------------------------------------------------------- init_axis: pointwise Frenet geometry
module('Axis', 'init_axis', 'init_axis', cfg={
    'skip': {
        'phi = np.linspace(': [('phi', 'phi')],
        'd_phi = phi[1] - phi[0]': [('d_phi', 'd_phi')],
        'for jn in range(0, self.nfourier)': [(a, a) for a in AXIS_ARRS],
        'for j in range(1, nphi)': [('self.varphi', 'varphi_cumsum')],
        'self.lasym = ': [],
        'self.R0_func = ': [], 'self.Z0_func = ': [],
    },
    'stub_methods': {'_determine_helicity': [('helicity', 'helicity')]},
}, locals_out=('d2_l_d_phi2', 'B0_over_abs_G0', 'rms_curvature', 'mean_of_R', 'mean_of_Z', 'standard_deviation_of_R',
               'standard_deviation_of_Z', 'torsion_numerator', 'torsion_denominator'))

# ---------------------------------------------------------------- sigma equation residual
module('Sigma', 'calculate_r1', '_residual', args=(E.sym('x'),), ret_names=['residual'])

# ---------------------------------------------------------------- r1 diagnostics (two helicity branches)
_r1d = {'stub_methods': {'calculate_grad_B_tensor': []}}
module('R1d', 'calculate_r1', 'r1_diagnostics', variants=variants_h(_r1d), locals_out=('p', 'q'))

# ---------------------------------------------------------------- grad B tensor
module('GradB', 'grad_B_tensor', 'calculate_grad_B_tensor')
module('GGB', 'grad_B_tensor', 'calculate_grad_grad_B_tensor', kwargs={'two_ways': True})
module('BfieldCyl', 'grad_B_tensor', 'Bfield_cylindrical', args=(E.sym('r'), E.sym('theta')),
       cfg={'branches': {'r == 0': False}}, ret_names=['B_R', 'B_phi', 'B_Z'],
       locals_out=('B1_vector_t', 'B1_vector_n', 'B1_vector_b'))
module('BfieldCart', 'grad_B_tensor', 'Bfield_cartesian', args=(E.sym('r'), E.sym('theta')),
       cfg={'branches': {'r == 0': False}, 'deps': [('grad_B_tensor', 'Bfield_cylindrical', {'branches': {'r == 0': False}})]},
       ret_names=['B_x', 'B_y', 'B_z'])
module('GradBCart', 'grad_B_tensor', 'grad_B_tensor_cartesian',
       cfg={'deps': [('grad_B_tensor', 'Bfield_cylindrical', {})]},
       ret_names=['c%d%d' % (i, j) for i in range(3) for j in range(3)])
module('GGBCart', 'grad_B_tensor', 'grad_grad_B_tensor_cartesian',
       cfg={'deps': [('grad_B_tensor', 'grad_grad_B_tensor_cylindrical', {})]},
       ret_names=['c%d%d%d' % (i, j, k) for i in range(3) for j in range(3) for k in range(3)])

# ---------------------------------------------------------------- O(r^2)
_r2 = {
    'branches': {'np.abs(iota_N) < 1e-08': False},
    'solve_names': ['X20', 'Y20'],
    'stub_methods': {'mercier': [], 'calculate_grad_grad_B_tensor': [], 'calculate_r_singularity': []},
}
module('R2', 'calculate_r2', 'calculate_r2', variants=variants_h(_r2),
       locals_out=('factor', 'qs', 'qc', 'rs', 'rc', 'Y2s_from_X20', 'Y2s_inhomogeneous', 'Y2c_from_X20', 'Y2c_inhomogeneous',
                   'fX0_from_X20', 'fX0_from_Y20', 'fX0_inhomogeneous', 'fXs_from_X20', 'fXs_from_Y20', 'fXs_inhomogeneous',
                   'fXc_from_X20', 'fXc_from_Y20', 'fXc_inhomogeneous', 'fY0_from_X20', 'fY0_from_Y20', 'fY0_inhomogeneous',
                   'fYs_from_X20', 'fYs_from_Y20', 'fYs_inhomogeneous', 'fYc_from_X20', 'fYc_from_Y20', 'fYc_inhomogeneous',
                   'normalizer'))

module('Mercier', 'mercier', 'mercier', locals_out=('integrand', 'integral'))

_r3 = {'branches': {'np.max(abs(flux_constraint_coefficient - predicted_flux_constraint_coefficient)) > 1e-07': False,
                    'np.max(abs(flux_constraint_coefficient - B0_order_a_squared_to_cancel / (2 * B0))) > 1e-07': False}}
module('R3', 'calculate_r3', 'calculate_r3', variants=variants_h(_r3),
       locals_out=('Q', 'predicted_flux_constraint_coefficient'))

module('Shear', 'calculate_r3', 'calculate_shear', cfg={'stop_at': ['DMred = ', 'DMred = d_d_varphi[1:, 1:]']},
       locals_out=('eps_scale', 'eta', 'B1c', 'B20', 'Ba1', 'Z31c', 'Z31s', 'X31c', 'X31s', 'Y31s', 'LamTilde'))

module('RSing', 'r_singularity', 'calculate_r_singularity', cfg={'stop_at': 'for jphi in range(nphi)',
       'branches': {'high_order': False}},
       locals_out=('g0', 'g1c', 'g20', 'g2c', 'g2s', 'K0', 'K2s', 'K2c', 'K4s', 'K4c', 'coefficients'))

# ---------------------------------------------------------------- evaluators
module('BmagCyl', 'util', 'B_mag', args=(E.sym('r'), E.sym('theta'), E.sym('phi_in')), kwargs={'Boozer_toroidal': False},
       cfg={'concrete': {'order': 'r2'}}, ret_names=['B'], locals_out=('thetaN',))
module('BmagBoozer', 'util', 'B_mag', args=(E.sym('r'), E.sym('theta'), E.sym('phi_in')), kwargs={'Boozer_toroidal': True},
       cfg={'concrete': {'order': 'r2'}, 'extra_ns': {}}, ret_names=['B'], locals_out=('thetaN',))


# ---------------------------------------------------------------- cylindrical surface output (pointwise parts)
def variants_order(cfg, orders=('r1', 'r2', 'r3')):
    out = {}
    for o in orders:
        c = dict(cfg)
        c['concrete'] = dict(cfg.get('concrete', {}), order=o)
        out[o] = c
    return out

_f2c = {'method': False, 'stub_pos': 1}
module('F2C1', 'Frenet_to_cylindrical', 'Frenet_to_cylindrical_1_point', args=(E.sym('phi0'),),
       variants=variants_order(_f2c, ('r1', 'r2')), ret_names=['total_R', 'total_z', 'total_phi'],
       locals_out=('total_x', 'total_y'))
_f2cr = {'method': False, 'stub_pos': 2,
         'branches': {'Frenet_to_cylindrical_residual > np.pi': False, 'Frenet_to_cylindrical_residual < -np.pi': False}}
module('F2CRes', 'Frenet_to_cylindrical', 'Frenet_to_cylindrical_residual_func', args=(E.sym('phi0'), E.sym('phi_target')),
       variants=variants_order(_f2cr, ('r1', 'r2')), ret_names=['residual'], locals_out=('total_x', 'total_y'))
_torz = {'deps': [('Frenet_to_cylindrical', 'Frenet_to_cylindrical_1_point', {'method': False})]}
module('ToRZ', 'Frenet_to_cylindrical', 'to_RZ', args=([[E.sym('r'), E.sym('theta'), E.sym('phi0')]],),
       variants=variants_order(_torz), ret_names=['R', 'Z', 'phi_out'],
       locals_out=('X_at_this_theta', 'Y_at_this_theta', 'Z_at_this_theta'))
