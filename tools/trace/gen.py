#!/usr/bin/env python3
"""Regenerate QscModel/Gen/*.lean from the current source of /repo/qsc.  Usage: gen.py [--out DIR] [modules...]
Writes gen_meta.json (definitions, inputs, source hashes, aborts).  Exit 0 even when a module aborts:
an abort is a *broken tie*, reported in gen_meta.json and handled by the check."""
import sys, os, json, traceback
sys.path.insert(0, os.path.dirname(os.path.abspath(__file__)))
sys.setrecursionlimit(20000)
from tracer import Tracer, source_hashes
from modules import MODULES
from expr import TraceAbort
import emit

def write_if_changed(path, text):
    if os.path.exists(path) and open(path).read() == text:
        return False
    with open(path, 'w') as f:
        f.write(text)
    return True

def gen_module(m):
    vs = m['variants'] or {'': m['cfg']}
    vd = {}
    for tag, cfg in vs.items():
        tr = Tracer()
        stub, loc, ret = tr.run(m['mod'], m['fname'], cfg, m['args'], m['kwargs'])
        items = emit.collect_items(m, stub, loc, ret)
        vd[tag] = emit.print_items(items, m['name'])
    return emit.lean_module(m, vd)

def main():
    args = sys.argv[1:]
    pin = '--pin' in args
    args = [a for a in args if a != '--pin']
    spec_fp = os.path.join(os.path.dirname(os.path.abspath(__file__)), '..', '..', 'Spec', 'local_fingerprints.json')
    if not pin:
        emit.load_pinned()
    out = os.path.join(os.path.dirname(os.path.abspath(__file__)), '..', '..', 'lean', 'QscModel', 'Gen')
    if args and args[0] == '--out':
        out = args[1]; args = args[2:]
    out = os.path.abspath(out)
    os.makedirs(out, exist_ok=True)
    names = args or list(MODULES)
    meta = dict(hashes=source_hashes(), modules={}, aborts={})
    for n in names:
        m = MODULES[n]
        try:
            lean, run, md = gen_module(m)
            write_if_changed(os.path.join(out, n + '.lean'), lean)
            write_if_changed(os.path.join(out, n + 'Run.lean'), run)
            meta['modules'][n] = md
        except Exception as ex:
            meta['aborts'][n] = dict(kind=type(ex).__name__, msg=str(ex), tb=traceback.format_exc(limit=-4))
    if not args:
        mods = sorted(meta['modules'])
        allf = ''.join('import QscModel.Gen.%sRun\n' % n for n in mods)
        allf += '/-! GENERATED: dispatch table of the Float runners -/\n'
        allf += 'def Gen.runModule (name : String) (o : Ops FArr) (get : String → FArr) : Option (List (String × FArr)) :=\n'
        allf += ''.join('  if name == "%s" then some (Gen.%s.run o get) else\n' % (n, n) for n in mods) + '  none\n'
        write_if_changed(os.path.join(out, 'All.lean'), allf)
    with open(os.path.join(out, 'gen_meta.json'), 'w') as f:
        json.dump(meta, f, indent=1, sort_keys=True)
    if not args:
        # companions of the same kind: effect table and configuration table (AST extraction)
        for comp in ('effects', 'configs'):
            try:
                mod = __import__(comp)
                if comp == 'effects':
                    mod.emit(mod.analyse(), out)
                else:
                    mod.emit(mod.analyse(), out)
                meta['modules'][comp.capitalize()] = dict(module=comp.capitalize(), source='AST extraction', inputs=[], defs=[])
            except Exception as ex:
                meta['aborts'][comp.capitalize()] = dict(kind=type(ex).__name__, msg=str(ex), tb=traceback.format_exc(limit=-4))
        with open(os.path.join(out, 'gen_meta.json'), 'w') as f:
            json.dump(meta, f, indent=1, sort_keys=True)
    meta['recovered_locals'] = emit.RECOVERED      # renamed / inlined locals recognised by fingerprint
    meta['lost_locals'] = emit.LOST                # locals of the pinned tree with no counterpart: their definitions are not emitted
    with open(os.path.join(out, 'gen_meta.json'), 'w') as f:
        json.dump(meta, f, indent=1, sort_keys=True)
    if pin:
        with open(spec_fp, 'w') as f:
            json.dump(dict(note='fingerprints (expr.fingerprint: hash modulo AC, x*x = x**2) of the named locals of the pinned tree; used only to recognise a renamed or inlined local', modules=emit.CURRENT_FP), f, indent=1, sort_keys=True)
    for n, a in meta['aborts'].items():
        print('ABORT', n, a['kind'], a['msg'])
    print('generated', len(meta['modules']), 'modules;', len(meta['aborts']), 'aborts')

if __name__ == '__main__':
    main()
