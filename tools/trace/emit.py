"""Print traced expressions as carrier-polymorphic Lean definitions."""
from fractions import Fraction
from expr import E, walk, TraceAbort
from expr import fingerprint, walk
import shim
from shim import ND, OpMatrix, Op, DMat, Opaque

LEAN_KEYWORDS = {'at', 'from', 'in', 'end', 'fun', 'let', 'do', 'then', 'else', 'if', 'open', 'section', 'namespace', 'def',
                 'theorem', 'structure', 'where', 'with', 'have', 'show', 'by', 'match', 'instance', 'class', 'import', 'export',
                 'mutual', 'variable', 'universe', 'local', 'prefix', 'infix', 'notation', 'set', 'for', 'return', 'Type', 'Prop', 'Sort'}
OPS_CONSTS = {'pi', 'mu0', 'nphi'}
OPS_CALLS = {'sqrt', 'abs', 'sin', 'cos', 'exp', 'sum', 'amax', 'amin', 'fmin'}
D_FIELDS = {'d_d_varphi': 'D', 'd_d_phi': 'Dphi'}
ARG = '__arg__'


def ident(n):
    return '«%s»' % n if n in LEAN_KEYWORDS else n


def nat(n):
    return '((%d:Nat):A)' % n


def num(fr):
    neg = fr < 0
    fr = abs(fr)
    s = nat(fr.numerator) if fr.denominator == 1 else '(%s / %s)' % (nat(fr.numerator), nat(fr.denominator))
    return '(-%s)' % s if neg else s


class Printer:
    def __init__(self, names):
        self.names = names          # uid -> def name
        self.syms = set()
        self.uses_arg = False
        self.refs = set()

    def pr(self, e, top=False):
        if not top and e.uid in self.names and e.op != 'sym' and not self.names[e.uid].endswith('_apply'):
            self.refs.add(self.names[e.uid])
            return '(%s o i)' % ident(self.names[e.uid])
        op = e.op
        if op == 'sym':
            n = e.args[0]
            if n == ARG:
                self.uses_arg = True
                return 'x'
            if n in OPS_CONSTS:
                return 'o.%s' % n
            self.syms.add(n)
            return 'i.%s' % ident(n)
        if op == 'num':
            return num(e.args[0])
        if op in ('add', 'sub', 'mul', 'div'):
            a, b = self.pr(e.args[0]), self.pr(e.args[1])
            return '(%s %s %s)' % (a, {'add': '+', 'sub': '-', 'mul': '*', 'div': '/'}[op], b)
        if op == 'neg':
            return '(-%s)' % self.pr(e.args[0])
        if op == 'pow':
            b, k = self.pr(e.args[0]), e.args[1]
            if k == 0:
                return nat(1)
            body = ' * '.join(['t'] * abs(k))
            s = '(let t := %s; (%s))' % (b, body) if abs(k) > 1 else b
            return s if k > 0 else '(%s / %s)' % (nat(1), s)
        if op == 'D':
            return '(o.%s %s)' % (D_FIELDS[e.args[0]], self.pr(e.args[1]))
        if op == 'at':
            return '(o.elemAt %d %s)' % (e.args[1], self.pr(e.args[0]))
        if op == 'copy':
            return self.pr(e.args[0])
        if op == 'set':
            return '(o.setAt %d %s %s)' % (e.args[1], self.pr(e.args[0]), self.pr(e.args[2]))
        if op == 'call':
            f = e.args[0]
            if f in OPS_CALLS:
                return '(o.%s %s)' % (f, self.pr(e.args[1]))
            if f == 'atan2':
                return '(o.atan2 %s %s)' % (self.pr(e.args[1]), self.pr(e.args[2]))
            if f.startswith('spline_'):
                return '(o.spline "%s" %s)' % (f[7:], self.pr(e.args[1]))
        raise TraceAbort('cannot print node %s' % op)


LOCAL_NAMES = set()
PINNED_FP = {}      # module -> {local item name: fingerprint on the pinned tree} (Spec/local_fingerprints.json)
CURRENT_FP = {}     # the same for the current tree (written by gen.py --pin)
RECOVERED, LOST = {}, {}


def load_pinned():
    """fingerprints of the named locals of the pinned tree (every tool that traces - gen.py, equiv.py - must see the same ones)"""
    import os, json
    p = os.path.join(os.path.dirname(os.path.abspath(__file__)), '..', '..', 'Spec', 'local_fingerprints.json')
    if os.path.exists(p):
        PINNED_FP.update(json.load(open(p))['modules'])


def collect_items(m, stub, loc, ret):
    """ordered list of (name, E) for everything the module exposes"""
    items = []

    def add(name, v):
        if isinstance(v, bool) or v is None or isinstance(v, (str, Opaque, DMat)):
            return
        if isinstance(v, (int, float, Fraction)):
            items.append((name, E.num(v)))
        elif isinstance(v, E):
            items.append((name, v))
        elif isinstance(v, list) and len(v) == 1:
            add(name, v[0])
        elif isinstance(v, ND):
            for k in v.keys():
                items.append((name + '_' + ''.join(str(x) for x in k), v.get(k)))
        elif isinstance(v, OpMatrix):
            items.append((name + '_apply', v.apply(E.sym(ARG))))
        elif isinstance(v, Op):
            items.append((name + '_apply', v.apply(E.sym(ARG))))
        elif type(v).__name__ in ('Struct', 'T') and hasattr(v, '__dict__'):
            for f, w in v.__dict__.items():
                add(name + '_' + f, w)

    pinned = PINNED_FP.get(m['name'], {})
    fp_memo = {}
    index = None          # fingerprint -> node, over every sub-expression the function computed (built on first need)
    for ln in m['locals_out']:
        k0 = len(items)
        if loc is not None and ln in loc:
            add(ln, loc[ln])
        else:
            # the local was renamed or inlined: recognise it by the fingerprint it had on the pinned tree (an expression
            # equal to it up to associativity / commutativity / x*x = x**2), otherwise the definition is simply not
            # emitted any more - theorems that mention it by name then have no subject (reported as such)
            want = {k: v for k, v in pinned.items() if k == ln or k.startswith(ln + '_')}
            if index is None:
                index = {}
                roots = list((loc or {}).values()) + ([stub._vals[w] for w in stub._writes] if stub is not None else []) + [ret]
                seen = set()
                def nodes_of(v):
                    if isinstance(v, E):
                        yield from walk(v, seen)
                    elif isinstance(v, ND):
                        for k in v.keys():
                            yield from nodes_of(v.get(k))
                    elif isinstance(v, (list, tuple)):
                        for w_ in v:
                            yield from nodes_of(w_)
                for r_ in roots:
                    for n_ in nodes_of(r_):
                        if n_.op not in ('num', 'sym'):
                            index.setdefault(fingerprint(n_, fp_memo), n_)
            found = {k: index[v] for k, v in want.items() if v in index}
            if want and len(found) == len(want):
                for k, node in found.items():
                    items.append((k, node))
                RECOVERED.setdefault(m['name'], []).append(ln)
            else:
                LOST.setdefault(m['name'], []).append(ln)
        for nm_, v_ in items[k0:]:
            LOCAL_NAMES.add((m['name'], nm_))
            CURRENT_FP.setdefault(m['name'], {})[nm_] = fingerprint(v_, fp_memo)
    if stub is not None:
        for w in dict.fromkeys(stub._writes):
            add(w, stub._vals[w])
    if m['ret_names'] is not None:
        if isinstance(ret, ND):
            keys = ret.keys()
            if len(keys) != len(m['ret_names']):
                raise TraceAbort('%s: return shape changed' % m['name'])
            for nm, k in zip(m['ret_names'], keys):
                items.append((nm, ret.get(k)))
        elif isinstance(ret, E):
            items.append((m['ret_names'][0], ret))
        elif isinstance(ret, (tuple, list)):
            for nm, v in zip(m['ret_names'], ret):
                add(nm, v)
        else:
            raise TraceAbort('%s: unexpected return value %r' % (m['name'], type(ret)))
    sol = getattr(shim.NP.linalg, 'last', None)
    if m['name'] == 'R2' and sol is not None:
        names = sol.names
        for rb in range(2):
            lhs = None
            for cb in range(2):
                op = sol.matrix.blocks.get((rb, cb))
                if op is None:
                    continue
                items.append(('M%d%d_apply' % (rb, cb), op.apply(E.sym(ARG))))
                t = op.apply(E.sym(names[cb]))
                lhs = t if lhs is None else lhs + t
            items.append(('eq%d_lhs' % (rb + 1), lhs))
            items.append(('eq%d_rhs' % (rb + 1), sol.rhs.blocks[rb]))
        shim.NP.linalg.last = None
    # later assignment of the same name wins; identical nodes under two names keep both (alias)
    final = {}
    for n, v in items:
        final[n] = v
    return list(final.items())


def order_items(items):
    """topological order by reference among named nodes"""
    by_uid = {}
    for n, e in items:
        by_uid.setdefault(e.uid, n)
    name_of = dict(by_uid)
    deps = {}
    for n, e in items:
        d = set()
        for sub in walk(e):
            if sub.uid in name_of and name_of[sub.uid] != n and sub.op != 'sym':
                d.add(name_of[sub.uid])
        deps[n] = d
    out, done = [], set()
    def visit(n, stack=()):
        if n in done:
            return
        if n in stack:
            raise TraceAbort('cyclic definition %s' % n)
        for d in sorted(deps[n]):
            visit(d, stack + (n,))
        done.add(n)
        out.append(n)
    d_items = dict(items)
    for n, _ in items:
        visit(n)
    return [(n, d_items[n]) for n in out], name_of


REDUCTIONS = {'sum', 'amax', 'amin', 'fmin'}


def add_aux_items(items, modname):
    """every non-atomic argument of `D` or of a reduction gets its own definition `aux_k` (array-level lemmas about
    generated definitions - equivariance, linearity - need such arguments to be named terms)"""
    named = {e.uid for _, e in items}
    aux, seen = [], set()
    for _, root in list(items):
        for n in walk(root):
            arg = None
            if n.op == 'D':
                arg = n.args[1]
            elif n.op == 'call' and n.args[0] in REDUCTIONS:
                arg = n.args[1]
            if arg is None or not isinstance(arg, E):
                continue
            if arg.op in ('sym', 'num') or arg.uid in named or arg.uid in seen:
                continue
            # an argument that mentions the operator argument `x` of an `_apply` definition cannot be a closed definition
            if any(m.op == 'sym' and m.args[0] == ARG for m in walk(arg)):
                continue
            seen.add(arg.uid)
            aux.append(arg)
    aux.sort(key=lambda e: e.uid)
    out = list(items)
    for k, e in enumerate(aux):
        nm = 'aux_%d' % k
        out.append((nm, e))
        LOCAL_NAMES.add((modname, nm))
    return out


def print_items(items, modname=''):
    """-> list of dicts {name, body, syms, uses_arg, refs}"""
    items = add_aux_items(items, modname)
    ordered, name_of = order_items(items)
    out = []
    for n, e in ordered:
        p = Printer(name_of)
        primary = name_of.get(e.uid) == n or e.op == 'sym'
        if not primary:
            # alias of an already named node
            body = '(%s o i)' % ident(name_of[e.uid])
            p.refs.add(name_of[e.uid])
        else:
            body = p.pr(e, top=True)
        out.append(dict(name=n, body=body, syms=set(p.syms), uses_arg=p.uses_arg, refs=set(p.refs)))
    return out


HEADER = '''import QscModel.Prelude
/-! GENERATED by /verif/tools/trace from the current text of /repo/qsc/%(mod)s.py (function `%(fname)s`).
Do not edit: every check run regenerates this file. -/
set_option maxRecDepth 8000
set_option linter.unusedVariables false
namespace Gen.%(name)s
'''


def lean_module(m, variant_defs):
    """variant_defs: {tag: [defdict]} -> (lean text, run text, meta)"""
    tags = list(variant_defs)
    merged = []          # (emit_name, defdict, tag or None)
    if len(tags) == 1:
        for d in variant_defs[tags[0]]:
            merged.append((d['name'], d, None))
    else:
        bodies = {t: {d['name']: d for d in variant_defs[t]} for t in tags}
        allnames = []
        for t in tags:
            for d in variant_defs[t]:
                if d['name'] not in allnames:
                    allnames.append(d['name'])
        differing = set()
        for n in allnames:
            bs = [bodies[t].get(n, {}).get('body') for t in tags]
            if any(b != bs[0] for b in bs):
                differing.add(n)
        # a def that references a differing def differs too
        changed = True
        while changed:
            changed = False
            for n in allnames:
                if n in differing:
                    continue
                for t in tags:
                    d = bodies[t].get(n)
                    if d and d['refs'] & differing:
                        differing.add(n); changed = True
        done = set()
        for t in tags:
            for d in variant_defs[t]:
                n = d['name']
                if n in differing:
                    dd = dict(d)
                    body = dd['body']
                    for r in sorted(d['refs'] & differing, key=len, reverse=True):
                        body = body.replace('(%s o i)' % ident(r), '(%s o i)' % ident(r + '_' + t))
                    dd['body'] = body
                    merged.append((n + '_' + t, dd, t))
                elif n not in done:
                    done.add(n)
                    merged.append((n, d, None))
    syms = set()
    for _, d, _ in merged:
        syms |= d['syms']
    fields = sorted(syms)
    L = [HEADER % m]
    L.append('structure In (A : Type) where')
    for f in fields:
        L.append('  %s : A' % ident(f))
    if not fields:
        L.append('  unit : Unit := ()')
    L.append('')
    L.append('variable {A : Type} [Add A] [Sub A] [Mul A] [Neg A] [Div A] [NatCast A]')
    L.append('')
    for en, d, t in merged:
        arg = ' (x : A)' if d['uses_arg'] else ''
        kind = 'qsc_local' if (m['name'], d['name']) in LOCAL_NAMES else 'qsc_attr'
        L.append('@[qsc_gen, %s] def %s (o : Ops A) (i : In A)%s : A :=\n  %s\n' % (kind, ident(en), arg, d['body']))
    L.append('end Gen.%s' % m['name'])
    lean = '\n'.join(L) + '\n'
    # runner
    R = ['import QscModel.Gen.%s\nimport QscModel.FArr\n/-! GENERATED: Float evaluation of every definition of Gen.%s -/\nnamespace Gen.%s' % (m['name'], m['name'], m['name'])]
    R.append('def run (o : Ops FArr) (get : String → FArr) : List (String × FArr) :=')
    R.append('  let i : In FArr := { %s }' % ', '.join('%s := get "%s"' % (ident(f), f) for f in fields) if fields else '  let i : In FArr := {}')
    ents = []
    for en, d, t in merged:
        call_ = '%s o i%s' % (ident(en), ' (get "%s")' % ARG if d['uses_arg'] else '')
        ents.append('("%s", %s)' % (en, call_))
    R.append('  [' + ',\n   '.join(ents) + ']')
    R.append('end Gen.%s' % m['name'])
    run = '\n'.join(R) + '\n'
    meta = dict(module=m['name'], source='%s.py:%s' % (m['mod'], m['fname']), inputs=fields,
                defs=[dict(name=en, variant=t, uses_arg=d['uses_arg'], kind=('local' if (m['name'], d['name']) in LOCAL_NAMES else 'attr')) for en, d, t in merged])
    return lean, run, meta
