#!/usr/bin/env python3
"""Build tools/trace/weights.json: the machine-readable specification of the equivariance laws (C05-C08).

Source: the table of appendixB.md (columns L, B, frv, mir, rev) + the completions/corrections listed in COMPLETE below
(inputs that the table does not mention, the exponent K of the repetition factor kappa, the component-wise `cw` entries).

Every entry is a monomial  l^L * c^B * kappa^K * s1^frv * s2^mir * s3^rev  (sign exponents 0/1), or null = no law.
Usage: mk_weights.py [appendixB.md] [out.json]
"""
import re, json, sys, os

HERE = os.path.dirname(os.path.abspath(__file__))
GENS = ['L', 'B', 'K', 'frv', 'mir', 'rev']


def W(L=0, B=0, K=0, frv=0, mir=0, rev=0):
    return dict(L=L, B=B, K=K, frv=frv, mir=mir, rev=rev)


def parse_table(path):
    out, cw, nolaw = {}, [], {}
    for line in open(path):
        m = re.match(r'\|\s*(-?\d+)\s*\|\s*(-?\d+)\s*\|\s*([-+?]|cw)\s*\|\s*([-+?]|cw)\s*\|\s*([-+?]|cw)\s*\|(.*)\|\s*$', line)
        if not m:
            continue
        L, B = int(m.group(1)), int(m.group(2))
        sg = [m.group(k) for k in (3, 4, 5)]
        names = re.findall(r'`([^`]+)`', m.group(6))
        for n in names:
            if 'cw' in sg:
                cw.append((n, L, B, sg))
            elif '?' in sg:
                nolaw[n] = dict(L=L, B=B, signs=sg)
            else:
                out[n] = W(L, B, 0, *[1 if s == '-' else 0 for s in sg])
    return out, cw, nolaw


# ---- completions -------------------------------------------------------------------------------------------------
def complete(tab, cw, nolaw):
    notes = {}
    # the dotted names of the table are the attributes of the `grad_B_tensor` Struct
    for k in list(tab):
        if k.startswith('gradB.'):
            tab['gradB_' + k[6:]] = tab[k]
            tab['grad_B_tensor_' + k[6:]] = tab.pop(k)
    tab['gradB_tt'] = tab['grad_B_tensor_tt'] = W(-1, 1, 0, 1, 0, 1)   # = 0 in vacuum-like order; weight of nn, bb
    # inputs that the table does not list
    tab['sG'] = W(frv=1)
    tab['spsi'] = W(frv=1)
    tab['nfp'] = W(K=-1)
    tab['nphi'] = W(K=1)
    tab['d_phi'] = W()
    tab['pi'] = W()
    tab['mu0'] = W()
    # X1s is identically 0 (any weight holds); it must be mirror-odd for X1s_untwisted = X1s cos + X1c sin to be
    # homogeneous (the table has X1s_untwisted mirror-odd)
    tab['X1s'] = W(mir=1)
    tab['d_X1s_d_varphi'] = W(mir=1, rev=1)
    tab['X3s1'] = tab['X3s1_untwisted']
    # kappa exponents (k-fold repetition of the field period): helicity counts turns of the normal per *period*
    for k in ('helicity',):
        tab[k] = dict(tab[k], K=1)
    # third-order quantities not in the table: identically zero arrays (any weight holds); given the weight of the
    # quantity of the same kind one harmonic lower so that the pattern X,Y ~ L^-2, Z as Z2 * L^-1 is kept
    for h in ('3',):
        tab['X3c' + h], tab['X3s' + h] = tab['X3c1'], tab['X3s1_untwisted']
        tab['Y3c' + h], tab['Y3s' + h] = tab['Y3c1'], tab['Y3s1']
    for h in ('1', '3'):
        tab['Z3c' + h] = dict(tab['Z2c'], L=-2)
        tab['Z3s' + h] = dict(tab['Z2s'], L=-2)
    for n in ('X3c3', 'X3s3', 'Y3c3', 'Y3s3', 'Z3c1', 'Z3c3', 'Z3s1', 'Z3s3'):
        tab[n + '_untwisted'] = tab[n]
    tab['X1s_untwisted'] = tab.get('X1s_untwisted', W(mir=1))
    # component-wise vectors in the cylindrical basis (R, phi, Z):  t = (R0p, R0, Z0p)/l', n ~ t'/kappa, b = t x n
    comp = {
        'tangent': [W(rev=1), W(), W(mir=1, rev=1)],
        'normal': [W(), W(rev=1), W(mir=1)],
        'binormal': [W(mir=1), W(mir=1, rev=1), W()],
    }
    for v, ws in comp.items():
        for k, (suffix, w) in enumerate(zip(('R', 'phi', 'z'), ws)):
            tab['%s_%s' % (v, suffix)] = w
            tab['%s_cylindrical_%d' % (v, k)] = w
    # tensors in the cylindrical basis: weight of the scalar part (Frenet components) times the parities of the basis
    # index: an index R/phi/Z contributes mirror-parity (0,0,1) and reversal-parity (0,1,0)   [R even, phi odd | Z odd]
    mirp, revp = (0, 0, 1), (0, 1, 0)
    # `grad_grad_B` is stored in the Frenet basis, index order (n, b, t)  [finding K1: the function named
    # grad_grad_B_tensor_cylindrical returns this Frenet-frame tensor]: b is odd under mirror, t odd under reversal
    mirF, revF = (0, 1, 0), (0, 0, 1)
    for a in range(3):
        for b in range(3):
            tab['grad_B_tensor_cylindrical_%d%d' % (a, b)] = tab['gradB_cyl_%d%d' % (a, b)] = \
                W(-1, 1, 0, 1, (mirp[a] + mirp[b]) % 2, (1 + revp[a] + revp[b]) % 2)
            for c in range(3):
                w = W(-2, 1, 0, 1, (mirF[a] + mirF[b] + mirF[c]) % 2, (1 + revF[a] + revF[b] + revF[c]) % 2)
                tab['grad_grad_B_%d%d%d' % (a, b, c)] = tab['ggB_%d%d%d' % (a, b, c)] = w
                tab['grad_grad_B_alt_%d%d%d' % (a, b, c)] = w
    # inputs whose law holds only when the grid is not re-indexed (pi = id, kappa = 1, s3 = 1): units, field reversal
    # and mirror.  Definitions that depend on them get CONDITIONAL theorems (true as stated, but their hypothesis
    # `(ap T i).varphi = varphi o pi` is met by the real code only for such T).
    cond = {
        # (rev = 1: under toroidal reversal the angles are odd *modulo the period*, varphi -> 2pi/nfp - varphi o pi; the only
        #  consumers are cos/sin(helicity*nfp*varphi), which do not see the period.  This makes the weights of the untwisted
        #  harmonics homogeneous; the law as such is claimed - and numerically validated - for pi = id only.)
        'varphi': dict(W(rev=1), condition='pi = id (units, field reversal, mirror); under reversal varphi -> 2pi/nfp - varphi, '
                                           'under origin shift/repetition varphi changes by an additive constant per period'),
        'phi': dict(W(rev=1), condition='pi = id (units, field reversal, mirror): grid coordinate'),
        'varphi_cumsum': dict(W(L=1, rev=1), condition='pi = id (units, field reversal, mirror): cumulative sum from the origin'),
    }
    # no law
    none = {}
    # (the `*_untwisted` harmonics obey their law under every generator except the origin shift when helicity != 0:
    #  they are built from cos/sin(N*varphi), see `noshift_when_helical`; the hN variants therefore get no theorem)
    none['varphi'] = 'defined up to the choice of origin: no law under origin shift, reversal gives 2pi/nfp - varphi'
    none['varphi_cumsum'] = 'cumulative sum from the origin: no law under re-indexing'
    none['phi'] = 'grid coordinate: no law under re-indexing'
    none['iota2'] = 'K3: calculate_shear ignores sG/spsi (no law under field reversal)'
    for n in nolaw:
        none.setdefault(n, 'table: ?')
    for k in cond:
        none.pop(k, None)
    return tab, none, cond


def main():
    src = sys.argv[1] if len(sys.argv) > 1 else os.path.join(HERE, '..', '..', 'appendixB.md')
    dst = sys.argv[2] if len(sys.argv) > 2 else os.path.join(HERE, 'weights.json')
    tab, cw, nolaw = parse_table(src)
    tab, none, cond = complete(tab, cw, nolaw)
    # corrections found by validate_weights.py (kept separate so that they are visible)
    corr_path = os.path.join(HERE, 'weights_corrections.json')
    corrections = json.load(open(corr_path)) if os.path.exists(corr_path) else {}
    for k, w in corrections.get('set', {}).items():
        tab[k] = w
    for k, why in corrections.get('nolaw', {}).items():
        tab.pop(k, None)
        none[k] = why
    out = dict(generators=GENS,
               doc='weight of x = l^L c^B kappa^K s1^frv s2^mir s3^rev ; transformed x = weight * (x o pi)',
               noshift_when_helical=sorted(k for k in tab if k.endswith('_untwisted')),
               attrs={k: tab[k] for k in sorted(tab)}, conditional=cond, nolaw={k: none[k] for k in sorted(none)},
               corrections=corrections)
    with open(dst, 'w') as f:
        json.dump(out, f, indent=1, sort_keys=True)
    print('wrote', dst, len(tab), 'laws,', len(none), 'without law')


if __name__ == '__main__':
    main()
