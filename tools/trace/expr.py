"""Expression DAG used by the translator (symbolic execution of the pyQSC source).

An `E` is an immutable node.  Operators build new nodes; nothing is simplified except the
trivial identities needed to follow NumPy idioms exactly (x+0 where 0 is the *Python int/zero array*
that `np.zeros` produced, 1*x for the Python int 1 is NOT simplified -- only literal zero arrays are).
Python ints stay exact; Python floats are taken as the exact decimal their repr shows (0.5 -> 1/2,
1e-7 -> 1/10**7), which is the reading DESIGN.md section 1 fixes for decimal literals.
"""
from fractions import Fraction
import itertools

_counter = itertools.count()


class TraceAbort(Exception):
    """The source uses a construct the translator cannot express: a broken tie, never skipped."""


def to_frac(x):
    if isinstance(x, bool):
        raise TraceAbort('bool used as number')
    if isinstance(x, int):
        return Fraction(x)
    if isinstance(x, float):
        if x != x or x in (float('inf'), float('-inf')):
            raise TraceAbort('non-finite literal')
        return Fraction(repr(x))
    if isinstance(x, Fraction):
        return x
    raise TypeError(x)


class E:
    __array_priority__ = 1000

    def __init__(self, op, args=(), zero_array=False):
        self.op = op
        self.args = tuple(args)
        self.uid = next(_counter)
        self.zero_array = zero_array  # produced by np.zeros: additive identity, dropped on +=

    # ---- constructors
    @staticmethod
    def sym(name):
        return E('sym', (name,))

    @staticmethod
    def num(x):
        return E('num', (to_frac(x),))

    @staticmethod
    def lift(x):
        if isinstance(x, E):
            return x
        if isinstance(x, Pt):
            raise TraceAbort('pointwise value mixed with array value')
        if isinstance(x, (int, float, Fraction)) and not isinstance(x, bool):
            return E.num(x)
        if isinstance(x, SymInt):
            return x.as_expr()
        raise TraceAbort('cannot lift %r' % (type(x),))

    def is_num(self):
        return self.op == 'num'

    # ---- arithmetic
    def _bin(self, op, other, swap=False):
        if isinstance(other, (Pt,)):
            return NotImplemented
        try:
            o = E.lift(other)
        except TraceAbort:
            return NotImplemented
        a, b = (o, self) if swap else (self, o)
        if op == 'add':
            if a.zero_array:
                return b
            if b.zero_array:
                return a
        if op == 'sub' and b.zero_array:
            return a
        if op == 'mul' and (a.zero_array or b.zero_array):
            return E('num', (Fraction(0),), zero_array=True)
        return E(op, (a, b))

    def __add__(self, o): return self._bin('add', o)
    def __radd__(self, o): return self._bin('add', o, True)
    def __sub__(self, o): return self._bin('sub', o)
    def __rsub__(self, o): return self._bin('sub', o, True)
    def __mul__(self, o): return self._bin('mul', o)
    def __rmul__(self, o): return self._bin('mul', o, True)
    def __truediv__(self, o): return self._bin('div', o)
    def __rtruediv__(self, o): return self._bin('div', o, True)

    def __neg__(self):
        if self.zero_array:
            return self
        return E('neg', (self,))

    def __pos__(self): return self

    def __abs__(self): return E('call', ('abs', self))

    def __pow__(self, k):
        if isinstance(k, E) and k.is_num():
            k = k.args[0]
        if isinstance(k, float):
            k = to_frac(k)
        if isinstance(k, Fraction) and k.denominator == 1:
            k = int(k)
        if isinstance(k, int) and not isinstance(k, bool):
            return E('pow', (self, k))
        if isinstance(k, Fraction) and k in (Fraction(1, 2), Fraction(1, 4)):
            r = E('call', ('sqrt', self))
            return r if k == Fraction(1, 2) else E('call', ('sqrt', r))
        raise TraceAbort('unsupported exponent %r' % (k,))

    def __rpow__(self, base):
        raise TraceAbort('symbolic exponent')

    def __matmul__(self, o):
        return NotImplemented

    # ---- comparisons give symbolic conditions, decided by the branch oracle
    def _cmp(self, op, o):
        return Cond(op, self, E.lift(o))

    def __lt__(self, o): return self._cmp('lt', o)
    def __le__(self, o): return self._cmp('le', o)
    def __gt__(self, o): return self._cmp('gt', o)
    def __ge__(self, o): return self._cmp('ge', o)
    def __eq__(self, o):
        if isinstance(o, (E, int, float, Fraction, SymInt)):
            return self._cmp('eq', o)
        return False
    def __ne__(self, o):
        if isinstance(o, (E, int, float, Fraction, SymInt)):
            return self._cmp('ne', o)
        return True
    __hash__ = object.__hash__

    def __bool__(self):
        raise TraceAbort('truth value of a symbolic array')

    # ---- indexing: x[j] with the loop index is "the generic grid point"; x[k] with an int is element k
    def __getitem__(self, idx):
        if isinstance(idx, LoopIndex):
            return Pt(self)
        if isinstance(idx, int) and not isinstance(idx, bool):
            return E('at', (self, idx))
        if isinstance(idx, slice) and idx == slice(None):
            return self
        if isinstance(idx, tuple) and len(idx) == 2 and idx[0] == slice(None) and idx[1] is None:
            from shim import Col
            return Col(self)
        if isinstance(idx, tuple) and len(idx) == 2 and idx[0] is None and idx[1] == slice(None):
            return self          # a row vector broadcasts against a matrix exactly as the 1-D array does
        if isinstance(idx, slice):
            from shim import Opaque
            return Opaque('slice')       # part of an array: only meaningful inside a hand-modelled hole (see shim.Opaque)
        raise TraceAbort('unsupported index %r on array expression' % (idx,))

    def __setitem__(self, idx, val):
        # `sigma = np.copy(x); sigma[0] = v`: in-place update of a fresh copy node
        if isinstance(idx, slice) and type(val).__name__ == 'Opaque' and getattr(val, 'what', '') in ('cumsum', 'concatenate', 'derived'):
            # `x[1:] = np.cumsum(...)`: the array becomes the result of a library loop - a hole, named by whoever holds it
            self.op, self.args, self.zero_array = 'sym', ('__hole__',), False
            return
        if self.op != 'copy' or not (isinstance(idx, int) and not isinstance(idx, bool)):
            raise TraceAbort('in-place element assignment on %r[%r]' % (self.op, idx))
        old = E(self.op, self.args)
        self.op, self.args = 'set', (old, idx, E.lift(val))

    def transpose(self):
        return self

    def __repr__(self):
        if self.op == 'sym':
            return self.args[0]
        if self.op == 'num':
            return str(self.args[0])
        return '%s(%s)' % (self.op, ','.join(repr(a) if isinstance(a, E) else str(a) for a in self.args))


class Cond:
    """A comparison between expressions; its truth value comes from the per-function branch oracle."""
    oracle = None  # set by the tracer: callable(Cond) -> bool

    def __init__(self, op, a, b):
        self.op, self.a, self.b = op, a, b

    def __bool__(self):
        if Cond.oracle is None:
            raise TraceAbort('data-dependent branch with no oracle: %r' % (self,))
        return Cond.oracle(self)

    def __repr__(self):
        return 'Cond(%s,%r,%r)' % (self.op, self.a, self.b)

    def __or__(self, o): raise TraceAbort('boolean algebra on symbolic conditions')
    __and__ = __or__


class SymInt:
    """a*nphi + b, the symbolic grid size used for shapes, ranges and block indices."""
    def __init__(self, a=1, b=0):
        self.a, self.b = a, b

    def _lift(self, o):
        if isinstance(o, SymInt):
            return o
        if isinstance(o, int) and not isinstance(o, bool):
            return SymInt(0, o)
        return None

    def __add__(self, o):
        if isinstance(o, LoopIndex):
            return o + self
        p = self._lift(o)
        if p is None:
            return self.as_expr() + o
        return SymInt(self.a + p.a, self.b + p.b)
    __radd__ = __add__

    def __sub__(self, o):
        p = self._lift(o)
        if p is None:
            return self.as_expr() - o
        return SymInt(self.a - p.a, self.b - p.b)

    def __rsub__(self, o):
        p = self._lift(o)
        if p is None:
            return o - self.as_expr()
        return SymInt(p.a - self.a, p.b - self.b)

    def __mul__(self, o):
        if isinstance(o, int) and not isinstance(o, bool):
            return SymInt(self.a * o, self.b * o)
        return self.as_expr() * o
    __rmul__ = __mul__

    def __truediv__(self, o): return self.as_expr() / o
    def __rtruediv__(self, o): return o / self.as_expr()

    def __eq__(self, o):
        p = self._lift(o)
        return p is not None and (p.a, p.b) == (self.a, self.b)
    def __hash__(self): return hash((self.a, self.b))

    def as_expr(self):
        n = E.sym('nphi')
        n = SymInt._nphi_expr
        r = n if self.a == 1 else E.num(self.a) * n
        if self.a == 0:
            return E.num(self.b)
        return r if self.b == 0 else r + E.num(self.b)

    def block(self):
        if self.b != 0:
            raise TraceAbort('index %r is not a block boundary' % (self,))
        return self.a

    def __index__(self):
        raise TraceAbort('symbolic grid size used as a concrete integer')

    def __repr__(self): return 'SymInt(%d*nphi+%d)' % (self.a, self.b)


SymInt._nphi_expr = E.sym('nphi')


class LoopIndex:
    """The loop variable of `for j in range(nphi)`: a generic grid point, possibly offset by whole blocks."""
    def __init__(self, block=0):
        self.block = block

    def __add__(self, o):
        if isinstance(o, SymInt):
            return LoopIndex(self.block + o.block())
        raise TraceAbort('arithmetic on the grid loop index')
    __radd__ = __add__

    def __eq__(self, o): return isinstance(o, LoopIndex) and o.block == self.block
    def __hash__(self): return hash(('LoopIndex', self.block))


class Pt:
    """x[j]: the value of an array expression at the generic grid point (a scalar for broadcasting purposes).
    Arithmetic between Pt values is pointwise arithmetic of the underlying arrays."""
    __array_priority__ = 2000

    def __init__(self, e):
        self.e = E.lift(e) if not isinstance(e, E) else e

    @staticmethod
    def _val(o):
        if isinstance(o, Pt):
            return o.e
        if isinstance(o, (int, float, Fraction)) and not isinstance(o, bool):
            return E.num(o)
        if isinstance(o, E) and o.op in ('num',):
            return o
        if isinstance(o, E):
            # a scalar attribute (iota_N, sG, ...) is an E as well: scalars broadcast, so this is fine
            return o
        return None

    def _bin(self, f, o, swap=False):
        v = Pt._val(o)
        if v is None:
            return NotImplemented
        return Pt(f(v, self.e) if swap else f(self.e, v))

    def __add__(self, o): return self._bin(lambda a, b: a + b, o)
    def __radd__(self, o): return self._bin(lambda a, b: a + b, o, True)
    def __sub__(self, o): return self._bin(lambda a, b: a - b, o)
    def __rsub__(self, o): return self._bin(lambda a, b: a - b, o, True)
    def __mul__(self, o): return self._bin(lambda a, b: a * b, o)
    def __rmul__(self, o): return self._bin(lambda a, b: a * b, o, True)
    def __truediv__(self, o): return self._bin(lambda a, b: a / b, o)
    def __rtruediv__(self, o): return self._bin(lambda a, b: a / b, o, True)
    def __neg__(self): return Pt(-self.e)
    def __pow__(self, k): return Pt(self.e ** k)


def walk(e, seen=None):
    """post-order over the DAG"""
    if seen is None:
        seen = set()
    stack = [(e, False)]
    while stack:
        n, done = stack.pop()
        if not isinstance(n, E):
            continue
        if done:
            yield n
            continue
        if n.uid in seen:
            continue
        seen.add(n.uid)
        stack.append((n, True))
        for a in n.args:
            if isinstance(a, E):
                stack.append((a, False))


# ---------------------------------------------------------------------------------------------------------------
# Fingerprints: a hash of an expression modulo associativity / commutativity of + and *, x*x = x**2, a - b = a + (-b),
# a/b/c = a/(b*c).  Used ONLY to recognise a local of the pinned tree that the current source has renamed or inlined
# (emit.py); never to decide that two definitions are equal - the generated Lean always prints the current expression.
import hashlib as _hashlib


def _h(x):
    return _hashlib.sha256(repr(x).encode()).hexdigest()[:16]


def _nf(e, memo):
    """normal form: sorted tuple of terms (coef, ((atom, exponent), ...)); no distribution of products over sums"""
    if not isinstance(e, E):
        return ((Fraction(1), ((('lit', repr(e)), 1),)),)
    if e.uid in memo:
        return memo[e.uid]

    def atom_of(nfv):
        return ('S', _h(nfv))

    def as_mono(nfv):
        """(coef, {atom: exp}) for a single term, a sum becomes one atom"""
        if len(nfv) == 1:
            c, fs = nfv[0]
            return c, dict(fs)
        if len(nfv) == 0:
            return Fraction(0), {}
        return Fraction(1), {atom_of(nfv): 1}

    def mono(c, d):
        if c == 0:
            return ()
        return ((c, tuple(sorted((k, v) for k, v in d.items() if v != 0))),)

    def merge(a, b, sb=1):
        acc = {}
        for c, fs in a:
            acc[fs] = acc.get(fs, 0) + c
        for c, fs in b:
            acc[fs] = acc.get(fs, 0) + sb * c
        return tuple(sorted(((c, fs) for fs, c in acc.items() if c != 0), key=repr))

    op = e.op
    if op == 'num':
        r = mono(e.args[0], {})
    elif op == 'sym':
        r = mono(Fraction(1), {('sym', e.args[0]): 1})
    elif op == 'neg':
        r = tuple((-c, fs) for c, fs in _nf(e.args[0], memo))
    elif op in ('add', 'sub'):
        r = merge(_nf(e.args[0], memo), _nf(e.args[1], memo), 1 if op == 'add' else -1)
    elif op in ('mul', 'div'):
        ca, da = as_mono(_nf(e.args[0], memo))
        cb, db = as_mono(_nf(e.args[1], memo))
        s = 1 if op == 'mul' else -1
        if op == 'div' and cb == 0:
            r = mono(Fraction(1), {('div0', _h(_nf(e.args[0], memo))): 1})
        else:
            d = dict(da)
            for k, v in db.items():
                d[k] = d.get(k, 0) + s * v
            r = mono(ca * cb if s == 1 else ca / cb, d)
    elif op == 'pow':
        c, d = as_mono(_nf(e.args[0], memo))
        k = e.args[1]
        if c == 0 and k <= 0:
            r = mono(Fraction(1), {('pow0', k): 1})
        else:
            r = mono(c ** k, {a: v * k for a, v in d.items()})
    else:
        kids = tuple(_h(_nf(a, memo)) if isinstance(a, E) else repr(a) for a in e.args)
        r = mono(Fraction(1), {(op, kids): 1})
    memo[e.uid] = r
    return r


def fingerprint(e, memo=None):
    return _h(_nf(e, {} if memo is None else memo))
