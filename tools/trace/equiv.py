#!/usr/bin/env python3
"""Equivariance engine: generate `QscProofs/Eqv/<Mod>*.lean` from the current source of /repo/qsc.

For every generated definition `f` of the pipeline modules the weight (a monomial in l, c, kappa, s1, s2, s3) is
INFERRED by propagating the weights of the inputs (tools/trace/weights.json) through the expression DAG of the
translator; if the inference succeeds one Lean theorem

    f T.o' (ap T i) = T.act a b k e1 e2 e3 (f T.o i)          (T.act .. x = wt .. • (x ∘ T.π))

is emitted, proved by a uniform script over the lemmas of QscProofs/Lemmas/Equiv.lean.  If it fails (inhomogeneous
sum, square root of an odd power, sine of a dimensional quantity, ...) the definition has NO LAW: it is reported with
the reason and no theorem is emitted for it nor for anything that depends on it.  Inferred weights of definitions that
are attributes are compared with the specification (weights.json); a disagreement is reported as `spec_mismatch`.

Usage: equiv.py [--out LEAN_DIR] [--json SUMMARY.json] [--chunk N] [modules...]
  LEAN_DIR  : the lake project root (default ../../lean); writes QscProofs/Eqv/<Mod>0.lean (`ap` and its projections),
              QscProofs/Eqv/<Mod><k>.lean (theorems, CHUNK definitions per file, importing only the files they refer to,
              so that `lake build` runs them in parallel), QscProofs/Eqv.lean (imports all; only when no module is named)
              and QscProofs/Eqv/summary.json (per module: proved definitions with weights, definitions without law + reason,
              disagreements with weights.json).
Regenerate everything:   gen.py --out LEAN_DIR/QscModel/Gen ; mk_weights.py ; validate_weights.py ; equiv.py --out LEAN_DIR
                         cd LEAN_DIR && lake build QscProofs.Eqv
Environment: QSC_REPO (default /repo) is the source tree that is traced.  No third-party Python package is needed.

Proof script of every theorem (uniform):
    funext j
    simp only [f, <inlined lawless definitions>, ap_<input>..., <g>_eqv for every referenced definition g, Tr.D_act, Tr.sum_act, ...]
    eqv_pointwise          -- Pi.*_apply, act_apply, pointwise functions
    eqv_zero               -- only if a literal 0 occurs: both sides lose the same zero terms
    eqv_push [sqrt rules]  -- the homomorphism lemmas carry all weights outwards; both sides become syntactically equal
    eqv_ring T             -- only for definitions proved by expansion (cancellation between inlined definitions)
"""
import sys, os, json
sys.path.insert(0, os.path.dirname(os.path.abspath(__file__)))
sys.setrecursionlimit(20000)
from fractions import Fraction
from tracer import Tracer
from modules import MODULES
from expr import E, walk, TraceAbort
import emit
from emit import ident, ARG

HERE = os.path.dirname(os.path.abspath(__file__))
PIPELINE = ['Axis', 'R1d', 'GradB', 'R2', 'Mercier', 'GGB', 'R3', 'RSing', 'Shear']
GENS = ['L', 'B', 'K', 'frv', 'mir', 'rev']


class NoLaw(Exception):
    pass


ANY = 'ANY'          # the weight of the literal 0: every law holds


def w_zero():
    return (0, 0, 0, 0, 0, 0)


def w_mul(a, b):
    if a is ANY or b is ANY:
        return ANY
    return (a[0] + b[0], a[1] + b[1], a[2] + b[2], (a[3] + b[3]) % 2, (a[4] + b[4]) % 2, (a[5] + b[5]) % 2)


def w_inv(a):
    return (-a[0], -a[1], -a[2], a[3], a[4], a[5])


def w_pow(a, k):
    if a is ANY:
        return ANY
    return (a[0] * k, a[1] * k, a[2] * k, (a[3] * k) % 2, (a[4] * k) % 2, (a[5] * k) % 2)


def w_str(w):
    if w is ANY:
        return 'any'
    s = []
    for g, e in zip(('l', 'c', 'kappa'), w[:3]):
        if e:
            s.append('%s^%d' % (g, e))
    for g, e in zip(('s1', 's2', 's3'), w[3:]):
        if e:
            s.append(g)
    return ' '.join(s) or '1'


def w_dict(w):
    return dict(zip(GENS, w))


def lean_w(w):
    def z(n):
        return '(%d)' % n if n < 0 else str(n)
    return '%s %s %s %s %s %s' % (z(w[0]), z(w[1]), z(w[2]), *['true' if e else 'false' for e in w[3:]])


class Inference:
    """weights of the nodes of one module (one variant)"""
    def __init__(self, spec, nolaw_inputs, name_of, emitted_of, def_weight, def_nolaw, cond=None, def_cond=None, arg_weight=None):
        self.spec, self.nolaw_inputs = spec, nolaw_inputs
        self.cond, self.def_cond, self.arg_weight = cond or {}, def_cond if def_cond is not None else {}, arg_weight
        self.cond_used = set()            # conditional inputs (law only for pi = id) the definition depends on
        self.name_of = name_of            # uid -> traced name (named nodes)
        self.emitted_of = emitted_of      # traced name -> emitted name
        self.def_weight, self.def_nolaw = def_weight, def_nolaw
        self.sqrt_args = []               # weights of the arguments of sqrt met in the current definition
        self.has_zero = False             # a literal 0 occurs inside the expression: simplified away before pushing
        self.memo = {}

    def ref(self, e):
        return e.uid in self.name_of and e.op != 'sym' and not self.name_of[e.uid].endswith('_apply')

    def weight(self, e, top=False):
        if not top and self.ref(e):
            en = self.emitted_of(self.name_of[e.uid])
            if en in self.def_nolaw:
                raise NoLaw('depends on `%s` (no law)' % en)
            self.cond_used |= self.def_cond.get(en, set())
            return self.def_weight[en]
        if e.uid in self.memo:
            return self.memo[e.uid]
        w = self._weight(e)
        self.memo[e.uid] = w
        return w

    def _weight(self, e):
        op = e.op
        if op == 'sym':
            n = e.args[0]
            if n == ARG:
                if self.arg_weight is None:
                    raise NoLaw('operator definition (takes the array argument x): no argument weight configured')
                return self.arg_weight
            if n in self.cond:
                self.cond_used.add(n)
            if n in self.nolaw_inputs:
                raise NoLaw('input `%s` has no law: %s' % (n, self.nolaw_inputs[n]))
            if n not in self.spec:
                raise NoLaw('input `%s` is not in weights.json' % n)
            return self.spec[n]
        if op == 'num':
            if e.args[0] == 0:
                self.has_zero = True
                return ANY
            return w_zero()
        if op in ('add', 'sub'):
            a, b = self.weight(e.args[0]), self.weight(e.args[1])
            if a is ANY or b is ANY:
                self.has_zero = True
                return b if a is ANY else a
            if a != b:
                raise NoLaw('inhomogeneous %s: [%s] %s [%s]' % ('sum' if op == 'add' else 'difference', w_str(a),
                                                                 '+' if op == 'add' else '-', w_str(b)))
            return a
        if op == 'mul':
            a, b = self.weight(e.args[0]), self.weight(e.args[1])
            if a is ANY or b is ANY:
                self.has_zero = True
                return ANY
            return w_mul(a, b)
        if op == 'div':
            a, b = self.weight(e.args[0]), self.weight(e.args[1])
            if a is ANY or b is ANY:
                self.has_zero = True
                return ANY
            return w_mul(a, w_inv(b))
        if op == 'neg':
            a = self.weight(e.args[0])
            if a is ANY:
                self.has_zero = True
            return a
        if op == 'pow':
            a, k = self.weight(e.args[0]), e.args[1]
            if a is ANY:
                if k <= 0:
                    raise NoLaw('non-positive power of literal zero')
                self.has_zero = True
                return ANY
            return w_pow(a, k)
        if op == 'D':
            a = self.weight(e.args[1])
            if a is ANY:
                raise NoLaw('derivative of literal zero')
            return (a[0], a[1], a[2], a[3], a[4], (a[5] + 1) % 2)
        if op == 'copy':
            return self.weight(e.args[0])
        if op == 'call':
            f = e.args[0]
            if f not in ('sqrt', 'abs', 'sin', 'cos', 'sum', 'amax', 'amin', 'fmin'):
                raise NoLaw('operation `%s` has no law' % f)
            a = self.weight(e.args[1])
            if a is ANY:
                if f in ('sqrt', 'abs', 'sin'):
                    self.has_zero = True
                    return ANY
                if f == 'cos':
                    self.has_zero = True
                    return w_zero()
                raise NoLaw('%s of literal zero' % f)
            if f == 'sqrt':
                if a[3] or a[4] or a[5]:
                    raise NoLaw('square root of a quantity that changes sign: [%s]' % w_str(a))
                if a[0] % 2 or a[1] % 2 or a[2] % 2:
                    raise NoLaw('square root of an odd power: [%s]' % w_str(a))
                h = (a[0] // 2, a[1] // 2, a[2] // 2, 0, 0, 0)
                self.sqrt_args.append(h)
                return h
            if f == 'abs':
                return (a[0], a[1], a[2], 0, 0, 0)
            if f in ('sin', 'cos'):
                if a[0] or a[1] or a[2]:
                    raise NoLaw('%s of a dimensional quantity: [%s]' % (f, w_str(a)))
                return a if f == 'sin' else w_zero()
            if f == 'sum':
                return (a[0], a[1], a[2] + 1, a[3], a[4], a[5])
            if a[3] or a[4] or a[5]:
                raise NoLaw('%s of a quantity that changes sign: [%s]' % (f, w_str(a)))
            return a
        raise NoLaw('operation `%s` has no law' % op)


# ---------------------------------------------------------------------------------------------------------------------
# second chance: a definition that refers to definitions WITHOUT a law (inhomogeneous sums) may still have one, because the
# offending parts cancel (eq2_rhs of calculate_r2: the term spsi*I2/B0*(curvature*sG*spsi/2) occurs in fX0_inhomogeneous
# and in fXc_inhomogeneous, and only their difference is used).  The lawless references are inlined and the expression is
# expanded into homogeneous components, each a Laurent polynomial over atoms (inputs, lawful references, D/abs/sqrt/...
# of those); components that expand to zero are dropped.  Exactly one surviving component = a law (proved by `ring`).
def p_add(p, q, sign=1):
    r = dict(p)
    for m, c in q.items():
        v = r.get(m, 0) + sign * c
        if v == 0:
            r.pop(m, None)
        else:
            r[m] = v
    return r


def m_mul(m1, m2):
    d = dict(m1)
    for a, e in m2:
        v = d.get(a, 0) + e
        if v == 0:
            d.pop(a, None)
        else:
            d[a] = v
    return tuple(sorted(d.items()))


def p_mul(p, q):
    r = {}
    for m1, c1 in p.items():
        for m2, c2 in q.items():
            m = m_mul(m1, m2)
            v = r.get(m, 0) + c1 * c2
            if v == 0:
                r.pop(m, None)
            else:
                r[m] = v
    if len(r) > 20000:
        raise NoLaw('expansion too large')
    return r


def p_key(p):
    return tuple(sorted(p.items()))


class Split:
    """value = {weight: Laurent polynomial}; lawless references in `inline` are expanded in place"""
    def __init__(self, inf, inline_exprs):
        self.inf = inf                      # an Inference (for atoms: inputs and lawful references)
        self.inline = inline_exprs          # emitted name -> expression of a lawless definition to inline
        self.memo = {}
        self.inlined = set()

    def atom(self, key, w):
        return {w: {((key, 1),): Fraction(1)}}

    def single(self, v, what):
        v = {w: p for w, p in v.items() if p}
        if len(v) > 1:
            raise NoLaw('%s of an inhomogeneous quantity' % what)
        if not v:
            return None, {}
        (w, p), = v.items()
        return w, p

    def val(self, e, top=False):
        inf = self.inf
        if not top and inf.ref(e):
            en = inf.emitted_of(inf.name_of[e.uid])
            if en in self.inline:
                self.inlined.add(en)
                return self.val(self.inline[en], top=True)
            return self.atom(('ref', en), inf.weight(e))
        if e.uid in self.memo:
            return self.memo[e.uid]
        v = self._val(e)
        self.memo[e.uid] = v
        return v

    def _val(self, e):
        op = e.op
        if op == 'sym':
            return self.atom(('sym', e.args[0]), self.inf.weight(e))
        if op == 'num':
            return {} if e.args[0] == 0 else {w_zero(): {(): Fraction(e.args[0])}}
        if op in ('add', 'sub'):
            a, b = self.val(e.args[0]), self.val(e.args[1])
            r = {w: dict(p) for w, p in a.items()}
            for w, p in b.items():
                r[w] = p_add(r.get(w, {}), p, 1 if op == 'add' else -1)
            return {w: p for w, p in r.items() if p}
        if op == 'neg':
            return {w: {m: -c for m, c in p.items()} for w, p in self.val(e.args[0]).items()}
        if op == 'mul':
            a, b = self.val(e.args[0]), self.val(e.args[1])
            r = {}
            for w1, p1 in a.items():
                for w2, p2 in b.items():
                    w = w_mul(w1, w2)
                    r[w] = p_add(r.get(w, {}), p_mul(p1, p2))
            return {w: p for w, p in r.items() if p}
        if op == 'pow':
            k = e.args[1]
            base = self.val(e.args[0])
            if k < 0:
                return self.inverse(self.power(base, -k))
            return self.power(base, k)
        if op == 'div':
            a, b = self.val(e.args[0]), self.inverse(self.val(e.args[1]))
            r = {}
            for w1, p1 in a.items():
                for w2, p2 in b.items():
                    w = w_mul(w1, w2)
                    r[w] = p_add(r.get(w, {}), p_mul(p1, p2))
            return {w: p for w, p in r.items() if p}
        if op == 'copy':
            return self.val(e.args[0])
        if op == 'D' or (op == 'call' and e.args[0] in ('sqrt', 'abs', 'sin', 'cos', 'sum', 'amax', 'amin', 'fmin')):
            # arguments of D and of reductions are named definitions or inputs; pointwise functions: homogeneous argument
            arg = e.args[1]
            f = e.args[0]
            w, p = self.single(self.val(arg), f)
            if w is None:
                raise NoLaw('%s of zero' % f)
            probe = Inference(self.inf.spec, self.inf.nolaw_inputs, {}, None, {}, {}, self.inf.cond)
            probe.memo[arg.uid] = w
            wr = probe._weight(E(op, e.args) if op == 'D' else E('call', e.args))
            self.inf.sqrt_args += probe.sqrt_args
            return self.atom((f, p_key(p)), wr)
        raise NoLaw('operation `%s` has no law' % op)

    def power(self, v, k):
        r = {w_zero(): {(): Fraction(1)}}
        for _ in range(k):
            n = {}
            for w1, p1 in r.items():
                for w2, p2 in v.items():
                    w = w_mul(w1, w2)
                    n[w] = p_add(n.get(w, {}), p_mul(p1, p2))
            r = n
        return r

    def inverse(self, v):
        w, p = self.single(v, 'division by')
        if w is None:
            raise NoLaw('division by zero')
        if len(p) == 1:
            (m, c), = p.items()
            return {w_inv(w): {tuple((a, -x) for a, x in m): 1 / c}}
        return self.atom(('inv', p_key(p)), w_inv(w))


def spec_key(en):
    for suf in ('_h0', '_hN'):
        if en.endswith(suf):
            return en[:-len(suf)]
    return en


def trace_module(m):
    """-> (meta, lean text pieces)  per emitted definition: dict(name, variant, E, name_of, printed)"""
    vs = m['variants'] or {'': m['cfg']}
    per_variant, printed_by_variant = {}, {}
    for tag, cfg in vs.items():
        tr = Tracer()
        stub, loc, ret = tr.run(m['mod'], m['fname'], cfg, m['args'], m['kwargs'])
        items = emit.collect_items(m, stub, loc, ret)
        printed = emit.print_items(items, m['name'])
        items2 = emit.add_aux_items(items, m['name'])
        ordered, name_of = emit.order_items(items2)
        per_variant[tag] = (dict(ordered), name_of)
        printed_by_variant[tag] = printed
    lean, run, meta = emit.lean_module(m, printed_by_variant)
    emitted = {d['name'] for d in meta['defs']}
    defs = []
    tags = list(vs)
    for d in meta['defs']:
        en, t = d['name'], d['variant']
        if t is None:
            base = en
            tag = next(tg for tg in tags if base in per_variant[tg][0])
        else:
            base, tag = en[:-len('_' + t)], t
        exprs, name_of = per_variant[tag]
        pr = next(p for p in printed_by_variant[tag] if p['name'] == base)
        def emitted_of(n, tag=tag):
            return n + '_' + tag if (tag and (n + '_' + tag) in emitted) else n
        defs.append(dict(name=en, base=base, tag=tag, expr=exprs[base], name_of=name_of, emitted_of=emitted_of,
                         syms=sorted(pr['syms']), refs=sorted(emitted_of(r) for r in pr['refs']), uses_arg=pr['uses_arg'],
                         local=(m['name'], base) in emit.LOCAL_NAMES))
    return meta, defs


def analyse_module(m, W):
    spec, cond = module_spec(m['name'], W)
    nolaw_inputs = W['nolaw']
    meta, defs = trace_module(m)
    def_weight, def_nolaw, mismatch, def_cond = {}, {}, {}, {}
    lawless_expr = {}       # definitions without a law because of an inhomogeneous sum: candidates for inlining
    for d in defs:
        en = d['name']
        argw = None
        if d['uses_arg']:
            a = ARG_WEIGHTS.get((m['name'], en))
            argw = w_zero() if a == 'generic' else (spec.get(a) if isinstance(a, str) else a)
            d['arg_weight'] = argw
            d['arg_generic'] = (a == 'generic')
        inf = Inference(spec, nolaw_inputs, d['name_of'], d['emitted_of'], def_weight, def_nolaw, cond, def_cond, argw)
        try:
            e = d['expr']
            primary = d['name_of'].get(e.uid) == d['base'] or e.op == 'sym'
            w = inf.weight(e, top=primary)
            sk = spec_key(en)
            if d.get('arg_generic') and (w is ANY or w[0] or w[1] or w[2]):
                raise NoLaw('operator definition: generic argument weight supported only for dimensionless operators')
            if w is ANY:
                w = spec.get(sk, w_zero())
                d['zero'] = True
            elif sk in spec and not d['local'] and spec[sk] != w:
                mismatch[en] = dict(inferred=w_dict(w), spec=w_dict(spec[sk]))
            if sk in spec and not d['local']:
                d['spec_checked'] = True
            elif sk in nolaw_inputs and not d['local']:
                mismatch[en] = dict(inferred=w_dict(w), spec=None, why=nolaw_inputs[sk])
            def_weight[en] = w
            d['sqrt'] = sorted(set(inf.sqrt_args))
            d['has_zero'] = inf.has_zero
            if inf.cond_used:
                def_cond[en] = set(inf.cond_used)
        except NoLaw as ex:
            def_nolaw[en] = str(ex)
            if 'inhomogeneous' in str(ex) and not str(ex).startswith('depends on'):
                lawless_expr[en] = d['expr']
            bad = [r for r in d['refs'] if r in lawless_expr]
            if bad and not d['uses_arg']:
                # second chance by expansion
                inf2 = Inference(spec, nolaw_inputs, d['name_of'], d['emitted_of'], def_weight,
                                 {k: v for k, v in def_nolaw.items() if k not in lawless_expr}, cond, def_cond, None)
                sp = Split(inf2, lawless_expr)
                try:
                    v = sp.val(d['expr'], top=True)
                    v = {w: p for w, p in v.items() if p}
                    if len(v) == 1:
                        (w, p), = v.items()
                        def_weight[en] = w
                        del def_nolaw[en]
                        d['expand'] = sorted(sp.inlined)
                        d['sqrt'] = sorted(set(inf2.sqrt_args))
                        d['has_zero'] = True
                        if inf2.cond_used:
                            def_cond[en] = set(inf2.cond_used)
                    else:
                        def_nolaw[en] = 'after expansion %d homogeneous components remain: %s' % (
                            len(v), ', '.join('[%s]' % w_str(w) for w in v))
                except NoLaw as ex2:
                    def_nolaw[en] += '; expansion: %s' % ex2
    return meta, defs, def_weight, def_nolaw, mismatch, def_cond


# modules in which half-integer powers of the field unit occur (sqrt(2/B0) in calculate_shear): there `T.c` stands for
# the SQUARE ROOT of the field-strength unit, i.e. every exponent B of weights.json is doubled
HALF_B = {'Shear'}
# the weight given to the array argument `x` of operator definitions (name of an attribute with that weight)
ARG_WEIGHTS = {('R2', 'M00_apply'): 'X20', ('R2', 'M10_apply'): 'X20', ('R2', 'M01_apply'): 'Y20', ('R2', 'M11_apply'): 'Y20',
               ('Axis', 'd_d_varphi_apply'): 'generic'}   # generic: for every weight of x (result: same weight times a sign monomial)


def module_spec(name, W):
    spec = {k: tuple(v[g] for g in GENS) for k, v in W['attrs'].items()}
    cond = {k: tuple(v[g] for g in GENS) for k, v in W.get('conditional', {}).items()}
    spec.update(cond)
    if name in HALF_B:
        spec = {k: (w[0], 2 * w[1]) + tuple(w[2:]) for k, w in spec.items()}
    return spec, cond


HEADER = '''/-! GENERATED by tools/trace/equiv.py from the current text of /repo/qsc/%(mod)s.py (function `%(fname)s`)
and tools/trace/weights.json.  Do not edit.  Equivariance of the generated definitions `Gen.%(name)s.*` under the
transformations `T : Tr ι ι'` of QscProofs/Lemmas/Equiv.lean. -/
set_option maxRecDepth 8000
set_option linter.unusedSimpArgs false
set_option linter.unusedVariables false
set_option linter.unusedTactic false
set_option linter.unreachableTactic false
set_option maxHeartbeats 1000000
'''

ARR_LEMMAS = 'Tr.D_act, Tr.Dphi_act, Tr.sum_act, Tr.amax_act, Tr.amin_act, Tr.fmin_act, Tr.pi_act, Tr.mu0_act, Tr.nphi_act'
# operator definitions: products with the argument occur inside `D`, so weights are combined at the array level, too
ARR_LEMMAS_ARG = ARR_LEMMAS + (', Tr.natCast_mul_act, Tr.act_mul_act, Int.reduceAdd, Int.reduceNeg, Int.reduceSub, neg_zero, neg_neg, '
                               'Bool.xor_lit_tt, Bool.xor_lit_tf, Bool.xor_lit_ft, Bool.xor_lit_ff, Bool.not_true, Bool.not_false')


def emit_module(m, W, meta, defs, def_weight, def_nolaw, chunk, def_cond):
    """-> {filename: text}, list of module names (import order)"""
    name = m['name']
    spec, cond = module_spec(name, W)
    inputs = meta['inputs']
    lawless = [f for f in inputs if f not in spec]
    files = {}
    # ---- base file: ap + projection lemmas
    B = ['import QscModel.Gen.%s' % name, 'import QscProofs.Lemmas.Equiv', HEADER % m, 'namespace Eqv.%s' % name,
         'open Gen.%s' % name, "variable {ι ι' : Type}", '']
    flds = []
    for f in inputs:
        if f in spec:
            flds.append('%s := T.act %s i.%s' % (ident(f), lean_w(spec[f]), ident(f)))
        else:
            flds.append('%s := u.%s' % (ident(f), ident(f)))
    uarg = " (u : In (ι' → ℝ))" if lawless else ''
    if name in HALF_B:
        B.append('/-! NOTE: half-integer powers of the field unit occur in this module; `T.c` stands for the SQUARE ROOT of the '
                 'field-strength unit here (all exponents of `c` are doubled). -/')
    cin = [f for f in inputs if f in cond]
    if cin:
        B.append('/-! NOTE: the inputs %s obey their law only when the grid is not re-indexed (`π = id`: units, field reversal, '
                 'mirror).  Theorems marked CONDITIONAL depend on them: they are true as stated, but the real code meets the '
                 'hypothesis on these inputs only for such `T`. -/' % ', '.join('`%s`' % f for f in cin))
    B.append('/-- the transformed inputs: every input with a law is re-indexed and multiplied by its weight'
             + ('; the inputs without a law (%s) are taken from `u` (arbitrary)' % ', '.join('`%s`' % f for f in lawless) if lawless else '')
             + ' -/')
    B.append("noncomputable def ap (T : Tr ι ι') (i : In (ι → ℝ))%s : In (ι' → ℝ) := { %s }" % (uarg, ', '.join(flds)))
    B.append('')
    apT = 'ap T i u' if lawless else 'ap T i'
    for f in inputs:
        if f in spec:
            B.append("theorem ap_%s (T : Tr ι ι') (i : In (ι → ℝ))%s : (%s).%s = T.act %s i.%s := rfl"
                     % (f, uarg, apT, ident(f), lean_w(spec[f]), ident(f)))
    B.append('')
    B.append('end Eqv.%s' % name)
    base_mod = 'QscProofs.Eqv.%s0' % name
    files['%s0.lean' % name] = '\n'.join(B) + '\n'
    # ---- theorem chunks
    provable = [d for d in defs if d['name'] in def_weight]
    by_name = {d['name']: d for d in defs}
    chunks = [provable[k:k + chunk] for k in range(0, len(provable), chunk)] or []
    where = {}
    for ci, ch in enumerate(chunks):
        for d in ch:
            where[d['name']] = ci
    mods = [base_mod]
    for ci, ch in enumerate(chunks):
        allrefs = set()
        for d in ch:
            allrefs |= set(d['refs'])
            for x in d.get('expand', []):
                allrefs |= set(by_name[x]['refs'])
        deps = sorted({where[r] for r in allrefs if r in where and where[r] != ci})
        L = ['import %s' % base_mod] + ['import QscProofs.Eqv.%s%d' % (name, k + 1) for k in deps]
        L += [HEADER % m, 'namespace Eqv.%s' % name, 'open Gen.%s' % name, "variable {ι ι' : Type}", '']
        for d in ch:
            en, w = d['name'], def_weight[d['name']]
            cnd = ''
            if en in def_cond:
                cnd = '  CONDITIONAL on the law of %s (π = id)' % ', '.join('`%s`' % c for c in sorted(def_cond[en]))
            if d['uses_arg'] and d.get('arg_generic'):
                res = 'a b k ' + ' '.join('(!e%d)' % (n + 1) if w[3 + n] else 'e%d' % (n + 1) for n in range(3))
                L.append('/-- `%s x` for an argument `x` of ANY weight: the weight of `x` times %s%s -/' % (en, w_str(w), cnd))
                L.append("theorem %s_eqv (T : Tr ι ι') (i : In (ι → ℝ))%s (a b k : ℤ) (e1 e2 e3 : Bool) (x : ι → ℝ) :\n"
                         "    %s T.o' (%s) (T.act a b k e1 e2 e3 x) = T.act %s (%s T.o i x) := by"
                         % (en, uarg, ident(en), apT, res, ident(en)))
            elif d['uses_arg']:
                aw = d['arg_weight']
                L.append('/-- weight of `%s x`: %s for an argument `x` of weight %s%s -/' % (en, w_str(w), w_str(aw), cnd))
                L.append("theorem %s_eqv (T : Tr ι ι') (i : In (ι → ℝ))%s (x : ι → ℝ) :\n    %s T.o' (%s) (T.act %s x) = T.act %s (%s T.o i x) := by"
                         % (en, uarg, ident(en), apT, lean_w(aw), lean_w(w), ident(en)))
            else:
                L.append('/-- weight of `%s`: %s%s -/' % (en, w_str(w), cnd))
                L.append("theorem %s_eqv (T : Tr ι ι') (i : In (ι → ℝ))%s :\n    %s T.o' (%s) = T.act %s (%s T.o i) := by"
                         % (en, uarg, ident(en), apT, lean_w(w), ident(en)))
            L.append('  funext j')
            exp = d.get('expand', [])
            syms, refs = set(d['syms']), set(d['refs'])
            for x in exp:
                dx = by_name[x]
                syms |= set(dx['syms']); refs |= set(dx['refs'])
            refs -= set(exp)
            lem = [ident(en)] + [ident(x) for x in exp] + ['ap_%s' % s for s in sorted(syms) if s in spec] + ['%s_eqv' % r for r in sorted(refs)]
            L.append('  simp only [%s, %s]' % (', '.join(lem), ARR_LEMMAS_ARG if d['uses_arg'] else ARR_LEMMAS))
            L.append('  all_goals try eqv_pointwise')
            if d.get('has_zero'):
                L.append('  all_goals try eqv_zero')
            if d.get('zero'):
                L.append('  all_goals try simp only [Tr.sc_zero]')
            else:
                sq = ''.join(", T.sc_sqrt' %s (by decide) (by decide) (by decide)"
                             % ' '.join('(%d)' % x for x in tuple(h[:3]) + tuple(2 * y for y in h[:3])) for h in d.get('sqrt', []))
                L.append('  all_goals try eqv_push%s' % (' [%s]' % sq[2:] if sq else ''))
            if exp:
                L.append('  all_goals eqv_ring T')
            L.append('')
        L.append('end Eqv.%s' % name)
        files['%s%d.lean' % (name, ci + 1)] = '\n'.join(L) + '\n'
        mods.append('QscProofs.Eqv.%s%d' % (name, ci + 1))
    return files, mods


def main():
    emit.load_pinned()
    args = sys.argv[1:]
    out = os.path.join(HERE, '..', '..', 'lean')
    jpath, chunk = None, 12
    while args and args[0].startswith('--'):
        if args[0] == '--out':
            out = args[1]
        elif args[0] == '--json':
            jpath = args[1]
        elif args[0] == '--chunk':
            chunk = int(args[1])
        args = args[2:]
    out = os.path.abspath(out)
    names = args or PIPELINE
    W = json.load(open(os.path.join(HERE, 'weights.json')))
    edir = os.path.join(out, 'QscProofs', 'Eqv')
    os.makedirs(edir, exist_ok=True)
    summary, allmods = {}, []
    for n in names:
        m = MODULES[n]
        try:
            meta, defs, dw, dn, mism, dc = analyse_module(m, W)
        except Exception as ex:
            summary[n] = dict(abort='%s: %s' % (type(ex).__name__, ex))
            print('ABORT', n, ex)
            continue
        bn = {d['name']: d for d in defs}
        per = CHUNKS.get(n, chunk)
        files, mods = emit_module(m, W, meta, defs, dw, dn, per, dc)
        for old in os.listdir(edir):
            if old.startswith(n) and old[len(n):-5].isdigit() and old.endswith('.lean') and old not in files:
                os.remove(os.path.join(edir, old))
        for fn, text in files.items():
            p = os.path.join(edir, fn)
            if not (os.path.exists(p) and open(p).read() == text):
                open(p, 'w').write(text)
        allmods += mods
        summary[n] = dict(source=meta['source'], inputs_without_law=[f for f in meta['inputs'] if f not in W['attrs'] and f not in W.get('conditional', {})],
                          c_is_sqrt_of_field_unit=(n in HALF_B),
                          spec_checked=sorted(d['name'] for d in defs if d.get('spec_checked')),
                          proved={k: dict(weight=w_dict(w), text=w_str(w), **({'conditional_on': sorted(dc[k])} if k in dc else {}),
                                          **({'by_expansion_of': bn[k]['expand']} if bn[k].get('expand') else {}))
                                  for k, w in dw.items()},
                          no_law=dn, spec_mismatch=mism, files=sorted(files))
        print('%-8s %3d definitions: %3d theorems (%d conditional), %3d without law; %d attribute weights compared with weights.json, %d mismatches'
              % (n, len(defs), len(dw), len(dc), len(dn), sum(1 for d in defs if d.get('spec_checked')), len(mism)))
        for k, v in dn.items():
            print('     no law  %-32s %s' % (k, v))
        for k, v in mism.items():
            print('     MISMATCH %-31s inferred %s  spec %s' % (k, v['inferred'], v['spec']))
    if not args:
        with open(os.path.join(out, 'QscProofs', 'Eqv.lean'), 'w') as f:
            f.write(''.join('import %s\n' % mname for mname in allmods))
            f.write('/-! GENERATED by tools/trace/equiv.py: all equivariance theorems (C05-C08) -/\n')
    jpath = jpath or os.path.join(edir, 'summary.json')
    old = {}
    if args and os.path.exists(jpath):
        old = json.load(open(jpath))
    old.update(summary)
    with open(jpath, 'w') as f:
        json.dump(old, f, indent=1, sort_keys=True)


# definitions per file (big expressions -> fewer per file so that every file compiles in a few minutes)
CHUNKS = {'R2': 8, 'GGB': 6, 'R3': 8}

if __name__ == '__main__':
    main()
