#!/usr/bin/env python3
"""Extract from the current /repo/qsc/configurations.py: the accepted names of `from_paper` (every literal compared with
`name` in the if/elif chain, per branch), the preset keyword arguments of each branch, whether the final `else` raises
ValueError, whether caller kwargs win (`add_default_args` only fills missing keys) and the advertised list (derived
from the docstring exactly as the module does).  Output: QscModel/Gen/Configs.lean + configs.json."""
import ast, os, sys, json
REPO = os.environ.get('QSC_REPO', '/repo')


def lit(node):
    try:
        return ast.literal_eval(node)
    except Exception:
        return ast.unparse(node)


def analyse():
    src = open(os.path.join(REPO, 'qsc', 'configurations.py')).read()
    tree = ast.parse(src)
    fn = [n for n in tree.body if isinstance(n, ast.FunctionDef) and n.name == 'from_paper'][0]
    doc = ast.get_docstring(fn, clean=False) or ''
    startline = '       "'
    advertised = [l[len(startline):-1] for l in doc.split('\n') if l[:len(startline)] == startline]
    branches, else_raises, problems = [], None, []
    chain = [s for s in fn.body if isinstance(s, ast.If)]
    if len(chain) != 1:
        problems.append('expected exactly one if/elif chain, found %d' % len(chain))
    node = chain[0] if chain else None
    def names_of(test):
        if isinstance(test, ast.BoolOp) and isinstance(test.op, ast.Or):
            out = []
            for v in test.values:
                out += names_of(v)
            return out
        if isinstance(test, ast.Compare) and len(test.ops) == 1 and isinstance(test.ops[0], ast.Eq) and isinstance(test.left, ast.Name) and test.left.id == 'name':
            return [lit(test.comparators[0])]
        if isinstance(test, ast.Compare) and len(test.ops) == 1 and isinstance(test.ops[0], ast.Eq) and isinstance(test.comparators[0], ast.Name) and test.comparators[0].id == 'name':
            return [lit(test.left)]
        # `name in ("a", 'b', 1)`: the same disjunction of equalities
        if isinstance(test, ast.Compare) and len(test.ops) == 1 and isinstance(test.ops[0], ast.In) and isinstance(test.left, ast.Name) and test.left.id == 'name' \
                and isinstance(test.comparators[0], (ast.Tuple, ast.List, ast.Set)):
            return [lit(e) for e in test.comparators[0].elts]
        problems.append('unrecognised test: ' + ast.unparse(test))
        return []
    while node is not None:
        names = names_of(node.test)
        kwargs, ok = {}, False
        for st in node.body:
            if isinstance(st, ast.Expr) and isinstance(st.value, ast.Call) and getattr(st.value.func, 'id', None) == 'add_default_args':
                ok = True
                if not (st.value.args and isinstance(st.value.args[0], ast.Name) and st.value.args[0].id == 'kwargs'):
                    problems.append('add_default_args not applied to kwargs')
                for k in st.value.keywords:
                    kwargs[k.arg] = lit(k.value)
            elif isinstance(st, ast.Expr) and isinstance(st.value, ast.Constant):
                pass
            else:
                problems.append('unexpected statement in branch %r: %s' % (names, ast.unparse(st)[:60]))
        if not ok:
            problems.append('branch %r sets no presets' % (names,))
        branches.append(dict(names=names, kwargs=kwargs))
        if len(node.orelse) == 1 and isinstance(node.orelse[0], ast.If):
            node = node.orelse[0]
        else:
            else_raises = any(isinstance(s, ast.Raise) and 'ValueError' in ast.unparse(s) for s in node.orelse)
            node = None
    # add_default_args: defaults never override caller-supplied keys
    ada = [n for n in fn.body if isinstance(n, ast.FunctionDef) and n.name == 'add_default_args']
    caller_wins = False
    if ada:
        # `add_default_args` is a closed dictionary function: its behaviour is read off by running its current text on
        # probes that cover every way a merge can go wrong - a caller value that is falsy (0, 0.0, False, None, [], ''),
        # a key only the caller has, a key only the defaults have, and that nothing else is touched
        try:
            f_ = ada[0]
            f_.decorator_list = []
            ns = {}
            exec(compile(ast.Module(body=[f_], type_ignores=[]), 'configurations.py:add_default_args', 'exec'), ns)
            fn_ = ns['add_default_args']
            ok = True
            for caller in ({}, {'a': 1}, {'a': 0}, {'a': 0.0}, {'a': False}, {'a': None}, {'a': []}, {'a': ''}, {'z': 5}, {'a': [1, 2], 'b': 0}):
                old = dict(caller)
                r = fn_(old, a=7, b=[8], c='x')
                got = old if r is None else r
                want = dict(a=7, b=[8], c='x'); want.update(caller)
                ok = ok and got == want and all(type(got[k]) is type(want[k]) for k in want)
            caller_wins = bool(ok)
        except Exception as ex:
            problems.append('add_default_args could not be evaluated: %s' % type(ex).__name__)
    returns_ctor = any(isinstance(s, ast.Return) and ast.unparse(s.value) == 'cls(**kwargs)' for s in fn.body)
    return dict(advertised=advertised, branches=branches, else_raises=bool(else_raises), caller_wins=caller_wins,
                returns_ctor=returns_ctor, problems=problems)


def key(x):
    return ('str:' + x) if isinstance(x, str) else ('%s:%r' % (type(x).__name__, x))


def emit(d, outdir):
    L = ['/-! GENERATED by /verif/tools/trace/configs.py from the current /repo/qsc/configurations.py. Do not edit. -/',
         'namespace Gen.Configs', '',
         '/-- the advertised list `Qsc.configurations` (built from the docstring as the module does) -/',
         'def advertised : List String := [' + ', '.join('"%s"' % a for a in d['advertised']) + ']', '',
         '/-- per branch of the if/elif chain: the literals accepted as `name` ("str:..."/"int:...") -/',
         'def branches : List (List String) := [' + ',\n  '.join('[' + ', '.join('"%s"' % key(n) for n in b['names']) + ']' for b in d['branches']) + ']', '',
         'def elseRaisesValueError : Bool := %s' % ('true' if d['else_raises'] else 'false'),
         'def callerKwargsWin : Bool := %s' % ('true' if d['caller_wins'] else 'false'),
         'def returnsConstructorCall : Bool := %s' % ('true' if d['returns_ctor'] else 'false'),
         'def problems : List String := [' + ', '.join('"%s"' % p.replace('"', "'") for p in d['problems']) + ']',
         'end Gen.Configs']
    txt = '\n'.join(L) + '\n'
    p = os.path.join(outdir, 'Configs.lean')
    if not (os.path.exists(p) and open(p).read() == txt):
        open(p, 'w').write(txt)
    json.dump(d, open(os.path.join(outdir, 'configs.json'), 'w'), indent=1)


if __name__ == '__main__':
    out = os.path.abspath(sys.argv[1]) if len(sys.argv) > 1 else os.path.join(os.path.dirname(os.path.abspath(__file__)), '..', '..', 'lean', 'QscModel', 'Gen')
    d = analyse()
    emit(d, out)
    print(len(d['advertised']), 'advertised;', len(d['branches']), 'branches; problems:', d['problems'])
