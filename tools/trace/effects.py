#!/usr/bin/env python3
"""Effect extraction (AST) over the current /repo/qsc sources: for every function, which attributes of the Qsc object
it assigns (`writes`), which it mutates in place - directly or through a local alias/view (`mutates`) - which object
methods / helper functions it calls, and whether a mutable default argument is modified.  The transitive closure over
calls gives the effect summary of each public method.  Output: QscModel/Gen/Effects.lean + effects.json.

Conservative by construction: an alias is any local bound to `self.X`, a slice/view of it, `np.asarray/transpose/
reshape/ravel` of it or the result of a method known to return such a view; every in-place operation on an alias
counts as a mutation of X."""
import ast, os, sys, json

REPO = os.environ.get('QSC_REPO', '/repo')
FILES = ['qsc.py', 'init_axis.py', 'calculate_r1.py', 'calculate_r2.py', 'calculate_r3.py', 'mercier.py', 'grad_B_tensor.py',
         'r_singularity.py', 'plot.py', 'Frenet_to_cylindrical.py', 'to_vmec.py', 'util.py', 'newton.py',
         'fourier_interpolation.py', 'spectral_diff_matrix.py', 'configurations.py']
OBJ_PARAMS = {'self', 'qsc', 's'}
VIEW_FUNCS = {'asarray', 'transpose', 'reshape', 'ravel', 'squeeze', 'atleast_1d', 'swapaxes', 'real', 'imag'}
VIEW_METHODS = {'transpose', 'reshape', 'ravel', 'view', 'squeeze', 'swapaxes'}
MUTATING_METHODS = {'sort', 'fill', 'resize', 'itemset', 'put', 'partition', 'setfield', 'byteswap'}
MUTATING_NP = {'put', 'copyto', 'place', 'putmask', 'fill_diagonal'}

PIPELINE = ['init_axis', '_determine_helicity', 'solve_sigma_equation', 'r1_diagnostics', 'calculate_grad_B_tensor', 'calculate_r2',
            'mercier', 'calculate_grad_grad_B_tensor', 'calculate_r_singularity', 'calculate_r3']
DIAGNOSTICS = ['plot', 'plot_boundary', 'plot_axis', 'B_fieldline', 'B_contour', 'flux_tube', 'get_boundary', 'Frenet_to_cylindrical',
               'to_RZ', 'B_mag', 'Bfield_cylindrical', 'Bfield_cartesian', 'grad_B_tensor_cartesian', 'grad_grad_B_tensor_cylindrical',
               'grad_grad_B_tensor_cartesian', 'to_vmec', 'calculate_shear', 'calculate_grad_grad_B_tensor', 'min_R0_penalty']
PARAM_ATTRS = ['rc', 'zs', 'rs', 'zc', 'nfp', 'etabar', 'sigma0', 'B0', 'I2', 'sG', 'spsi', 'nphi', 'B2s', 'B2c', 'p2', 'order',
               'nfourier', 'names', 'min_R0_threshold']


class FuncInfo:
    def __init__(self, name, file):
        self.name, self.file = name, file
        self.writes, self.mutates, self.reads = set(), set(), set()
        self.calls = set()
        self.returns_view_of = set()
        self.default_mut = []          # (param, guarded_constant: bool, lineno)
        self.mut_sites = []            # (attr, lineno, how)
        self.first_read, self.first_write = {}, {}
        self.call_lines = {}


def obj_attr(node, objs):
    """self.X -> 'X' when node is an attribute of an object parameter"""
    if isinstance(node, ast.Attribute) and isinstance(node.value, ast.Name) and node.value.id in objs:
        return node.attr
    return None


def view_root(node, objs, aliases, infos):
    """attribute of the object that `node` is (a view of), or None"""
    a = obj_attr(node, objs)
    if a is not None:
        return a
    if isinstance(node, ast.Name) and node.id in aliases:
        return aliases[node.id]
    if isinstance(node, ast.Subscript):
        return view_root(node.value, objs, aliases, infos)
    if isinstance(node, ast.Attribute) and node.attr == 'T':
        return view_root(node.value, objs, aliases, infos)
    if isinstance(node, ast.Call):
        f = node.func
        if isinstance(f, ast.Attribute):
            if isinstance(f.value, ast.Name) and f.value.id in ('np', 'numpy') and f.attr in VIEW_FUNCS and node.args:
                return view_root(node.args[0], objs, aliases, infos)
            if f.attr in VIEW_METHODS:
                return view_root(f.value, objs, aliases, infos)
            m = obj_attr(f, objs)       # self.method(...) returning a view
            if m is not None and m in infos and infos[m].returns_view_of:
                return sorted(infos[m].returns_view_of)[0]
    return None


class Visitor(ast.NodeVisitor):
    def __init__(self, info, objs, infos, mutable_defaults):
        self.info, self.objs, self.infos = info, objs, infos
        self.aliases = {}
        self.mdef = mutable_defaults
        self.guards = []
        self.strenv = {}        # loop variable -> the literal strings it ranges over (for getattr/setattr with computed names)
        self.const_dicts = {}   # local name -> True when bound to a dict literal with constant values (fresh on every call)
        self.const_names = set()  # loop variables ranging over the values of such a dict

    def possible(self, e):
        """the set of strings an expression can evaluate to (literal, loop variable over literals, concatenation, f-string)"""
        if isinstance(e, ast.Constant) and isinstance(e.value, str):
            return {e.value}
        if isinstance(e, ast.Constant) and isinstance(e.value, int):
            return {str(e.value)}
        if isinstance(e, ast.Name) and e.id in self.strenv:
            return set(self.strenv[e.id])
        if isinstance(e, ast.BinOp) and isinstance(e.op, ast.Add):
            a, b = self.possible(e.left), self.possible(e.right)
            return None if a is None or b is None else {x + y for x in a for y in b}
        if isinstance(e, ast.JoinedStr):
            acc = {''}
            for v in e.values:
                part = self.possible(v.value) if isinstance(v, ast.FormattedValue) and v.format_spec is None and v.conversion == -1 else self.possible(v)
                if part is None:
                    return None
                acc = {x + y for x in acc for y in part}
            return acc
        return None

    def visit_For(self, node):
        self.visit(node.iter)
        bound, cbound = [], []
        it = node.iter
        if isinstance(it, ast.Call) and isinstance(it.func, ast.Name) and it.func.id == 'enumerate' and len(it.args) == 1 and isinstance(it.args[0], (ast.Tuple, ast.List)) \
                and isinstance(node.target, ast.Tuple) and len(node.target.elts) == 2:
            # for j, name in enumerate([...literals...]): the index ranges over 0..len-1, the name over the literals
            elts = it.args[0].elts
            ti, tn = node.target.elts
            if isinstance(ti, ast.Name):
                self.strenv[ti.id] = {str(k_) for k_ in range(len(elts))}; bound.append(ti.id)
            if isinstance(tn, ast.Name) and all(self.possible(x) is not None for x in elts):
                self.strenv[tn.id] = set().union(*[self.possible(x) for x in elts]) if elts else set(); bound.append(tn.id)
        if isinstance(it, (ast.Tuple, ast.List)):
            elts = it.elts
            if isinstance(node.target, ast.Name) and all(self.possible(x) is not None for x in elts):
                self.strenv[node.target.id] = set().union(*[self.possible(x) for x in elts]) if elts else set()
                bound.append(node.target.id)
            elif isinstance(node.target, ast.Tuple) and all(isinstance(x, (ast.Tuple, ast.List)) and len(x.elts) == len(node.target.elts) for x in elts):
                for k, t in enumerate(node.target.elts):
                    if isinstance(t, ast.Name) and all(self.possible(x.elts[k]) is not None for x in elts):
                        self.strenv[t.id] = set().union(*[self.possible(x.elts[k]) for x in elts])
                        bound.append(t.id)
        if isinstance(it, ast.Call) and isinstance(it.func, ast.Attribute) and it.func.attr in ('items', 'values') and \
                isinstance(it.func.value, ast.Name) and self.const_dicts.get(it.func.value.id):
            t = node.target
            vname = t.elts[1] if (it.func.attr == 'items' and isinstance(t, ast.Tuple) and len(t.elts) == 2) else (t if it.func.attr == 'values' else None)
            if isinstance(vname, ast.Name):
                self.const_names.add(vname.id); cbound.append(vname.id)
        for st in node.body:
            self.visit(st)
        for b in bound:
            self.strenv.pop(b, None)
        for b in cbound:
            self.const_names.discard(b)
        for st in node.orelse:
            self.visit(st)

    def mark_mut(self, attr, node, how):
        self.info.mutates.add(attr)
        self.info.mut_sites.append((attr, node.lineno, how))

    def store_target(self, t, node):
        a = obj_attr(t, self.objs)
        if a is not None:
            self.info.writes.add(a)
            self.info.first_write.setdefault(a, node.lineno)
            return
        if isinstance(t, ast.Subscript):
            if isinstance(t.value, ast.Name) and t.value.id in self.mdef:
                guarded = any(g == t.value.id for g in self.guards)
                v_ = getattr(node, 'value', None)
                const = isinstance(v_, (ast.Constant, ast.List, ast.UnaryOp)) or (isinstance(v_, ast.Name) and v_.id in self.const_names)
                self.info.default_mut.append((t.value.id, bool(guarded and const), node.lineno))
                return
            r = view_root(t.value, self.objs, self.aliases, self.infos)
            if r is not None:
                self.mark_mut(r, node, 'element assignment')
        elif isinstance(t, (ast.Tuple, ast.List)):
            for e in t.elts:
                self.store_target(e, node)

    def visit_Assign(self, node):
        self.visit(node.value)
        for t in node.targets:
            if isinstance(t, ast.Name):
                def _c(x):
                    return isinstance(x, ast.Constant) or (isinstance(x, ast.UnaryOp) and isinstance(x.operand, ast.Constant)) or \
                        (isinstance(x, (ast.List, ast.Tuple)) and all(_c(y) for y in x.elts))
                self.const_dicts[t.id] = isinstance(node.value, ast.Dict) and all(_c(v) for v in node.value.values)
                r = view_root(node.value, self.objs, self.aliases, self.infos)
                if r is not None:
                    self.aliases[t.id] = r
                else:
                    self.aliases.pop(t.id, None)
            else:
                self.store_target(t, node)

    def visit_AugAssign(self, node):
        self.visit(node.value)
        t = node.target
        a = obj_attr(t, self.objs)
        if a is not None:
            self.info.writes.add(a)
            self.mark_mut(a, node, 'augmented assignment')
            return
        if isinstance(t, ast.Name) and t.id in self.aliases:
            self.mark_mut(self.aliases[t.id], node, 'augmented assignment through alias `%s`' % t.id)
            return
        if isinstance(t, ast.Subscript):
            self.store_target(t, node)

    def visit_If(self, node):
        g = None
        tst = ast.unparse(node.test)
        for p in self.mdef:
            if ('not in %s' % p) in tst:
                g = p
        self.visit(node.test)
        self.guards.append(g)
        for st in node.body:
            self.visit(st)
        self.guards.pop()
        for st in node.orelse:
            self.visit(st)

    def visit_Call(self, node):
        f = node.func
        if isinstance(f, ast.Attribute):
            m = obj_attr(f, self.objs)
            if m is not None:
                self.info.calls.add(m)
                self.info.call_lines.setdefault(m, node.lineno)
            elif f.attr in MUTATING_METHODS:
                r = view_root(f.value, self.objs, self.aliases, self.infos)
                if r is not None:
                    self.mark_mut(r, node, '.%s()' % f.attr)
            elif isinstance(f.value, ast.Name) and f.value.id in ('np', 'numpy') and f.attr in MUTATING_NP and node.args:
                r = view_root(node.args[0], self.objs, self.aliases, self.infos)
                if r is not None:
                    self.mark_mut(r, node, 'np.%s' % f.attr)
            if f.attr == 'setattr':
                pass
        elif isinstance(f, ast.Name):
            if f.id == 'setattr' and node.args and isinstance(node.args[0], ast.Name) and node.args[0].id in self.objs:
                names = self.possible(node.args[1]) if len(node.args) > 1 else None
                if names is None:
                    self.info.writes.add('*')
                else:
                    for a_ in names:
                        self.info.writes.add(a_)
                        self.info.first_write.setdefault(a_, node.lineno)
            if f.id == 'getattr' and node.args and isinstance(node.args[0], ast.Name) and node.args[0].id in self.objs:
                names = self.possible(node.args[1]) if len(node.args) > 1 else None
                for a_ in (names if names is not None else []):      # an uncomputable name is a read of something: harmless for C17
                    self.info.reads.add(a_)
                    self.info.first_read.setdefault(a_, node.lineno)
            # helper function receiving the object
            if any(isinstance(a, ast.Name) and a.id in self.objs for a in node.args) or \
               any(isinstance(k.value, ast.Name) and k.value.id in self.objs for k in node.keywords):
                self.info.calls.add(f.id)
                self.info.call_lines.setdefault(f.id, node.lineno)
            for k in node.keywords:
                if k.arg == 'args' and isinstance(k.value, ast.Tuple) and any(isinstance(a, ast.Name) and a.id in self.objs for a in k.value.elts):
                    for a in node.args:
                        if isinstance(a, ast.Name):
                            self.info.calls.add(a.id)
                            self.info.call_lines.setdefault(a.id, node.lineno)
        self.generic_visit(node)

    def visit_Attribute(self, node):
        a = obj_attr(node, self.objs)
        if a is not None and isinstance(node.ctx, ast.Load):
            self.info.reads.add(a)
            self.info.first_read.setdefault(a, node.lineno)
        self.generic_visit(node)

    def visit_Return(self, node):
        if node.value is not None:
            r = view_root(node.value, self.objs, self.aliases, self.infos)
            if r is not None:
                self.info.returns_view_of.add(r)
            self.visit(node.value)


def analyse():
    funcs = {}
    trees = {}
    for fn in FILES:
        p = os.path.join(REPO, 'qsc', fn)
        if not os.path.exists(p):
            continue
        trees[fn] = ast.parse(open(p).read())
    def all_funcs(tree):
        for node in ast.walk(tree):
            if isinstance(node, ast.FunctionDef):
                yield node
    infos = {}
    for rnd in range(2):          # second round sees `returns_view_of` of callees
        for fn, tree in trees.items():
            for node in all_funcs(tree):
                params = [a.arg for a in node.args.args]
                objs = {p for p in params if p in OBJ_PARAMS}
                if node.name in ('calculate_grad_B_tensor', 'calculate_grad_grad_B_tensor', 'calculate_r_singularity'):
                    objs.add('s')
                if not objs and node.name != '__init__':
                    objs = set()
                info = FuncInfo(node.name, fn)
                defaults = node.args.defaults
                mdef = set()
                for p, d in zip(params[len(params) - len(defaults):], defaults):
                    if isinstance(d, (ast.Dict, ast.List, ast.Set)) or (isinstance(d, ast.Call) and isinstance(d.func, ast.Name) and d.func.id in ('dict', 'list', 'set')):
                        mdef.add(p)
                v = Visitor(info, objs, infos, mdef)
                # `s = self` shorthand
                for st in node.body:
                    if isinstance(st, ast.Assign) and isinstance(st.value, ast.Name) and st.value.id in objs:
                        for t in st.targets:
                            if isinstance(t, ast.Name):
                                objs.add(t.id)
                for st in node.body:
                    v.visit(st)
                infos[node.name] = info
    # transitive closure
    def closure(name, seen=None):
        seen = seen or set()
        if name in seen or name not in infos:
            return set(), set(), []
        seen.add(name)
        i = infos[name]
        w, m, dm = set(i.writes), set(i.mutates), list(i.default_mut)
        for c in i.calls:
            w2, m2, dm2 = closure(c, seen)
            w |= w2; m |= m2; dm += dm2
        return w, m, dm
    def own_rbw(i_):
        return {a for a in i_.reads if not (a in i_.first_write and i_.first_write[a] < i_.first_read.get(a, 10**9))}
    def rbw_closure(name, seen=None):
        seen = seen or set()
        if name in seen or name not in infos:
            return set()
        seen = seen | {name}
        i_ = infos[name]
        r = own_rbw(i_)
        for c in i_.calls:
            line = i_.call_lines.get(c, 0)
            sub = rbw_closure(c, seen)
            r |= {a for a in sub if not (a in i_.first_write and i_.first_write[a] < line)}
        return r
    out = {}
    for name in infos:
        w, m, dm = closure(name)
        i_ = infos[name]
        rbw = sorted(a for a in i_.reads if a not in infos and not (a in i_.first_write and i_.first_write[a] < i_.first_read.get(a, 10**9)))
        out[name] = dict(file=infos[name].file, writes=sorted(w), mutates=sorted(m), reads=rbw, reads_before_write=sorted(a for a in rbw_closure(name) if a not in infos),
                         calls=sorted(infos[name].calls), own_writes=sorted(infos[name].writes),
                         returns_view_of=sorted(infos[name].returns_view_of),
                         default_mut=[dict(param=p, idempotent_constant=g, line=l) for p, g, l in dm],
                         mut_sites=[dict(attr=a, line=l, how=h) for a, l, h in infos[name].mut_sites])
    return out


def solution_attrs(eff):
    sol = set(PARAM_ATTRS)
    for p in PIPELINE:
        if p in eff:
            sol |= set(eff[p]['own_writes'])
    return sorted(sol)


def lean_list(xs):
    return '[' + ', '.join('"%s"' % x for x in xs) + ']'


def emit(eff, outdir):
    sol = solution_attrs(eff)
    L = ['/-! GENERATED by /verif/tools/trace/effects.py from the current /repo/qsc sources: effect summary of every',
         'evaluation / plotting / export / optional-diagnostic method (attributes assigned, attributes mutated in place,',
         'mutable default arguments modified).  Do not edit. -/', 'namespace Gen.Effects', '',
         'structure Eff where', '  name : String', '  writes : List String', '  mutates : List String',
         '  defaultMutOk : Bool      -- every modification of a mutable default argument is a guarded constant (idempotent)',
         '  isStage : Bool           -- the method is itself a pipeline stage (re-evaluation of solution attributes)',
         '  stageReads : List String', '  stageWrites : List String',
         '  readsBefore : List String  -- attributes read before the method itself has written them (transitively)', 'deriving Repr', '',
         'def solution : List String :=', '  ' + lean_list(sol), '']
    L.append('def methods : List Eff := [')
    rows = []
    present = [d for d in DIAGNOSTICS if d in eff]
    for d in present:
        e = eff[d]
        ok = all(x['idempotent_constant'] for x in e['default_mut'])
        stage = d in PIPELINE
        rows.append('  { name := "%s", writes := %s, mutates := %s, defaultMutOk := %s, isStage := %s, stageReads := %s, stageWrites := %s, readsBefore := %s }'
                    % (d, lean_list(e['writes']), lean_list(e['mutates']), 'true' if ok else 'false', 'true' if stage else 'false',
                       lean_list(e['reads'] if stage else []), lean_list(e['own_writes'] if stage else []), lean_list(e['reads_before_write'])))
    L.append(',\n'.join(rows))
    L.append(']')
    L.append('')
    L.append('def missing : List String := ' + lean_list([d for d in DIAGNOSTICS if d not in eff]))
    L.append('end Gen.Effects')
    txt = '\n'.join(L) + '\n'
    p = os.path.join(outdir, 'Effects.lean')
    if not (os.path.exists(p) and open(p).read() == txt):
        open(p, 'w').write(txt)
    json.dump(dict(effects=eff, solution=sol), open(os.path.join(outdir, 'effects.json'), 'w'), indent=1, sort_keys=True)


if __name__ == '__main__':
    out = os.path.abspath(sys.argv[1]) if len(sys.argv) > 1 else os.path.join(os.path.dirname(os.path.abspath(__file__)), '..', '..', 'lean', 'QscModel', 'Gen')
    eff = analyse()
    emit(eff, out)
    sol = set(solution_attrs(eff))
    for d in DIAGNOSTICS:
        if d in eff:
            e = eff[d]
            print('%-34s writes∩sol=%s mutates∩sol=%s defaults=%s' % (d, sorted(set(e['writes']) & sol), sorted(set(e['mutates']) & sol), e['default_mut']))
