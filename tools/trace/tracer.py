"""Symbolic execution of pyQSC functions, driven by the *current* source text of /repo/qsc/*.py."""
import ast, os, sys, hashlib
from fractions import Fraction
from expr import E, Pt, SymInt, LoopIndex, Cond, TraceAbort
import shim
from shim import NP, ND, DMat, Opaque, CoefArr, Logger, sym_range, call

REPO = os.environ.get('QSC_REPO', '/repo')

ALLOWED_FOR_ITERS = {'range(3)', 'range(nphi)', 'range(self.nphi)', '[-1, 1]', 'points'}


LOG_ROOTS = {'logger', 'logging', 'warnings', 'print'}


def is_log_only(stmts):
    """statements without any effect on the computation: logging / warnings / print calls, pass, docstrings"""
    for st in stmts:
        if isinstance(st, ast.Pass):
            continue
        if isinstance(st, ast.Expr) and isinstance(st.value, ast.Constant):
            continue
        if isinstance(st, ast.Expr) and isinstance(st.value, ast.Call):
            f = st.value.func
            while isinstance(f, ast.Attribute):
                f = f.value
            if isinstance(f, ast.Name) and f.id in LOG_ROOTS:
                continue
        return False
    return True


class _Alpha(ast.NodeTransformer):
    """bare names (locals) -> `_`; attributes of self, module names and callables keep their spelling"""
    KEEP = {'self', 'np', 'abs', 'max', 'min', 'sum', 'len', 'range', 'True', 'False', 'None', 'qsc', 'logger'}

    def visit_Name(self, node):
        return node if node.id in self.KEEP else ast.copy_location(ast.Name(id='_', ctx=node.ctx), node)


def alpha(src):
    """alpha-normalised spelling of an expression: renaming local variables does not change it"""
    try:
        t = ast.parse(src, mode='eval')
    except SyntaxError:
        return src
    return ast.unparse(_Alpha().visit(t))


def norm_iter(it):
    """`range(0, n)` and `range(n)` are the same iteration"""
    if it.startswith('range(0, '):
        return 'range(' + it[len('range(0, '):]
    return it


def stmt_matches(pattern, st, first):
    """does statement `st` (first line `first`) match a configured prefix?  Exact prefix first; then, so that renaming a
    local does not break the tie: a `for` header is matched by its iterator alone, and an assignment `name = <text>` by the
    alpha-normalised right-hand side when the pattern carries one."""
    if first.startswith(pattern):
        return True
    if pattern.startswith('for ') and isinstance(st, ast.For) and ' in ' in pattern:
        it = pattern.split(' in ', 1)[1].rstrip(':').strip()
        return norm_iter(ast.unparse(st.iter)) == norm_iter(it)
    if ' = ' in pattern and isinstance(st, ast.Assign):
        rhs = pattern.split(' = ', 1)[1].strip()
        if len(rhs) >= 8:          # a real right-hand-side fragment, not just `name = `
            cur = ast.unparse(st.value)
            return cur.startswith(rhs) or alpha(cur).startswith(alpha_prefix(rhs))
    return False


def alpha_prefix(frag):
    """alpha-normalise a possibly incomplete expression fragment (used as a prefix)"""
    for closing in ('', ')', '))', ']', '])'):
        try:
            ast.parse(frag + closing, mode='eval')
            a = alpha(frag + closing)
            return a[:len(a) - len(closing)] if closing else a
        except SyntaxError:
            continue
    return frag


class Rewriter(ast.NodeTransformer):
    """if-tests go through the branch oracle, for-loops are vetted, configured statements are skipped/havocked"""
    def __init__(self, cfg, fname, capture=True):
        self.cfg, self.fname, self.capture = cfg, fname, capture

    def _stmts(self, body):
        out = []
        for st in body:
            txt = ast.unparse(st)
            first = txt.split('\n')[0]
            stop = self.cfg.get('stop_at')
            stops = [stop] if isinstance(stop, str) else list(stop or ())
            if any(stmt_matches(sp, st, first) for sp in stops):
                break
            hit = None
            for pre, hv in self.cfg.get('skip', {}).items():
                if first.startswith(pre):
                    hit = hv
                    break
            if hit is None:
                for pre, hv in self.cfg.get('skip', {}).items():
                    if stmt_matches(pre, st, first):
                        hit = hv
                        break
            if hit is None and isinstance(st, ast.For):
                # a hand-modelled loop written with another range / index convention: recognised by what it fills in
                stored = set()
                for n_ in ast.walk(st):
                    if isinstance(n_, (ast.Assign, ast.AugAssign)):
                        for t_ in (n_.targets if isinstance(n_, ast.Assign) else [n_.target]):
                            while isinstance(t_, ast.Subscript):
                                t_ = t_.value
                            stored.add(ast.unparse(t_))
                for pre, hv in self.cfg.get('skip', {}).items():
                    if pre.startswith('for ') and hv and stored and stored <= {t for t, _ in hv}:
                        hit = hv
                        break
            if hit is not None:
                for target, symname in hit:
                    out.append(ast.parse('%s = __havoc__(%r)' % (target, symname)).body[0])
                continue
            out.append(self.visit(st))
        return out

    def visit_FunctionDef(self, node):
        if node.name != self.fname:
            return node
        node.body = self._stmts(node.body)
        if self.capture:
            node.body.append(ast.parse('__cap__(locals())').body[0])
        return node

    def visit_If(self, node):
        src = ast.unparse(node.test)
        if src not in self.cfg.get('branches', {}) and is_log_only(node.body) and is_log_only(node.orelse):
            return ast.copy_location(ast.Pass(), node)       # a diagnostic message only: no effect on the model
        node.test = ast.Call(func=ast.Name(id='__br__', ctx=ast.Load()), args=[self.visit(node.test), ast.Constant(src)], keywords=[])
        node.body = self._stmts(node.body)
        node.orelse = self._stmts(node.orelse)
        return node

    def visit_For(self, node):
        it = norm_iter(ast.unparse(node.iter))
        def concrete(n):
            """an iteration over literals: executed as written (attribute names, small index ranges, sign pairs)"""
            if isinstance(n, ast.Constant):
                return True
            if isinstance(n, (ast.Tuple, ast.List)):
                return True      # a display has a fixed number of elements, whatever they are
            if isinstance(n, ast.Call) and isinstance(n.func, ast.Name) and n.func.id in ('range', 'enumerate', 'zip', 'reversed'):
                return all(concrete(a) for a in n.args) and not n.keywords
            if isinstance(n, ast.UnaryOp) and isinstance(n.operand, ast.Constant):
                return True
            return False
        if it not in ALLOWED_FOR_ITERS and it not in self.cfg.get('allow_for', ()) and not (concrete(node.iter) and not isinstance(node.iter, ast.Constant)):
            raise TraceAbort('%s: for-loop over %r is neither translatable nor configured as hand-modelled' % (self.fname, it))
        node.body = self._stmts(node.body)
        return node

    def visit_While(self, node):
        raise TraceAbort('%s: while-loop in translated code' % self.fname)

    def visit_Return(self, node):
        if not self.capture:
            return self.generic_visit(node)
        val = node.value if node.value is not None else ast.Constant(None)
        node.value = ast.Call(func=ast.Name(id='__ret__', ctx=ast.Load()), args=[val, ast.Call(func=ast.Name(id='locals', ctx=ast.Load()), args=[], keywords=[])], keywords=[])
        return node

    def visit_BoolOp(self, node):
        # `a or b` on symbolic conditions: route through the oracle one operand at a time
        self.generic_visit(node)
        vals = [ast.Call(func=ast.Name(id='__br__', ctx=ast.Load()), args=[v, ast.Constant(ast.unparse(v))], keywords=[]) for v in node.values]
        node.values = vals
        return node


class SelfStub:
    """stands for the Qsc object: reading an unknown attribute creates an input symbol"""
    def __init__(self, tr, cfg):
        object.__setattr__(self, '_tr', tr)
        object.__setattr__(self, '_cfg', cfg)
        object.__setattr__(self, '_vals', {})
        object.__setattr__(self, '_reads', [])
        object.__setattr__(self, '_writes', [])

    def __getattr__(self, name):
        vals = object.__getattribute__(self, '_vals')
        cfg = object.__getattribute__(self, '_cfg')
        if name in vals:
            v = vals[name]
            if isinstance(v, E) and v.op == 'sym' and v.args == ('__hole__',):
                for hv in cfg.get('skip', {}).values():
                    for target, symname in hv:
                        if target == 'self.' + name:
                            v = vals[name] = E.sym(symname)
                if v.args == ('__hole__',):
                    raise TraceAbort('attribute `%s` is filled by a library loop that is not a configured hole' % name)
            return v
        tr = object.__getattribute__(self, '_tr')
        if name in cfg.get('concrete', {}):
            return cfg['concrete'][name]
        if name in cfg.get('stub_methods', {}):
            eff = cfg['stub_methods'][name]
            def stub(*a, **k):
                for attr, symname in eff:
                    vals[attr] = E.sym(symname)
                    self._reads.append(symname)
            return stub
        if name in tr.functions:
            fn = tr.functions[name]
            return lambda *a, **k: fn(self, *a, **k)
        v = tr.input_attr(name, self)
        vals[name] = v
        return v

    def __setattr__(self, name, v):
        if isinstance(v, Opaque):
            # the result of a library loop (cumsum, ...) stored where a hand-modelled statement used to compute it in a
            # Python loop: the same hole, the same fresh symbol
            for hv in self._cfg.get('skip', {}).values():
                for target, symname in hv:
                    if target == 'self.' + name and v.what in ('cumsum', 'concatenate'):
                        v = E.sym(symname)
        if isinstance(v, Opaque):
            v.what = name
        self._vals[name] = v
        self._writes.append(name)


VEC3 = {'tangent_cylindrical': ('tangent_R', 'tangent_phi', 'tangent_z'),
        'normal_cylindrical': ('normal_R', 'normal_phi', 'normal_z'),
        'binormal_cylindrical': ('binormal_R', 'binormal_phi', 'binormal_z')}
DMATS = ('d_d_varphi', 'd_d_phi')
COEFS = ('rc', 'zs', 'rs', 'zc')
SPLINES = ('R0_func', 'Z0_func', 'X_spline', 'Y_spline', 'Z_spline', 'nu_spline', 'B20_spline',
           'normal_R_spline', 'normal_phi_spline', 'normal_z_spline', 'binormal_R_spline', 'binormal_phi_spline',
           'binormal_z_spline', 'tangent_R_spline', 'tangent_phi_spline', 'tangent_z_spline')


class Tracer:
    def __init__(self):
        self.sources = {}
        self.functions = {}     # name -> python callable (transformed real source)
        self.modules = {}
        self.captured = None
        self.returned = None

    def source(self, mod):
        if mod not in self.sources:
            self.sources[mod] = open(os.path.join(REPO, 'qsc', mod + '.py')).read()
        return self.sources[mod]

    def input_attr(self, name, stub):
        if name in VEC3:
            stub._reads.extend(VEC3[name])
            return ND((3,), {(k,): E.sym(s) for k, s in enumerate(VEC3[name])}, grid_first=True)
        if name in DMATS:
            stub._reads.append(name)
            return DMat(name)
        if name in COEFS:
            return CoefArr(name)
        if name in SPLINES:
            return Opaque(name)
        if name == 'nphi':
            return SymInt(1, 0)
        if name == 'grad_B_tensor_cylindrical':
            names = {(i, j): 'gradB_cyl_%d%d' % (i, j) for i in range(3) for j in range(3)}
            stub._reads.extend(names.values())
            return ND((3, 3), {k: E.sym(v) for k, v in names.items()}, grid_first=False)
        if name in ('grad_grad_B',):
            names = {(i, j, k): 'ggB_%d%d%d' % (i, j, k) for i in range(3) for j in range(3) for k in range(3)}
            stub._reads.extend(names.values())
            return ND((3, 3, 3), {k: E.sym(v) for k, v in names.items()}, grid_first=True)
        if name == 'grad_B_tensor':
            st = type('T', (), {})()
            for c in ('tn', 'nt', 'bb', 'nn', 'bn', 'nb', 'tt'):
                setattr(st, c, E.sym('gradB_' + c)); stub._reads.append('gradB_' + c)
            return st
        if name.startswith('_'):
            raise AttributeError(name)
        stub._reads.append(name)
        return E.sym(name)

    def load(self, mod, fname, cfg):
        """compile function `fname` of module `mod` (current source) with the rewriting of `cfg`"""
        tree = ast.parse(self.source(mod))
        fn = [n for n in tree.body if isinstance(n, ast.FunctionDef) and n.name == fname]
        if not fn:
            raise TraceAbort('function %s.%s no longer exists' % (mod, fname))
        fn = fn[0]
        fn.decorator_list = []
        fn = Rewriter(cfg, fname).visit(fn)
        m = ast.Module(body=[fn], type_ignores=[])
        ast.fix_missing_locations(m)
        ns = self.namespace(cfg)
        # private helpers defined next to the function (an extracted sub-expression, a shared formula): executed from
        # the current source like the function itself, without capturing their locals.  One that cannot be rewritten is
        # left out; calling it then aborts the translation as an undefined name.
        for h in tree.body:
            if isinstance(h, ast.FunctionDef) and h.name != fname and h.name not in ns and h.name not in self.functions:
                try:
                    h.decorator_list = []
                    hm = ast.Module(body=[Rewriter(cfg, h.name, capture=False).visit(h)], type_ignores=[])
                    ast.fix_missing_locations(hm)
                    exec(compile(hm, '%s.py:%s' % (mod, h.name), 'exec'), ns)
                except Exception:
                    pass
        exec(compile(m, '%s.py:%s' % (mod, fname), 'exec'), ns)
        return ns[fname]

    def namespace(self, cfg):
        tr = self
        def br(val, src):
            if isinstance(val, bool):
                return val
            if isinstance(val, Cond):
                dec = cfg.get('branches', {})
                if src in dec:
                    return dec[src]
                # the same test with locals renamed: decided as configured, provided the alpha-normalised spelling
                # identifies one decision only
                a = alpha(src)
                cands = {v for k, v in dec.items() if alpha(k) == a}
                if len(cands) == 1:
                    return cands.pop()
                raise TraceAbort('data-dependent branch `%s` has no configured decision' % src)
            if val is None or isinstance(val, (int, str)):
                return bool(val)
            raise TraceAbort('branch on %r (`%s`)' % (type(val), src))
        def cap(loc):
            tr.captured = dict(loc)
        def ret(val, loc):
            tr.captured = dict(loc)
            tr.returned = val
            return val
        def havoc(name):
            return E.sym(name)
        np = NP()
        NP.linalg.solve_names = cfg.get('solve_names')
        ns = dict(np=np, logger=Logger(), mu0=E.sym('mu0'), Struct=type('Struct', (), {}), range=sym_range,
                  __br__=br, __cap__=cap, __ret__=ret, __havoc__=havoc,
                  fourier_minimum=lambda y: call('fmin', y),
                  spectral_diff_matrix=lambda n, xmin=0, xmax=None: DMat('d_d_phi'),
                  spline=lambda *a, **k: Opaque('anon'), warnings=Logger())
        ns.update(self.functions)
        ns.update(cfg.get('extra_ns', {}))
        return ns

    def run(self, mod, fname, cfg, args=(), kwargs=None):
        """returns (stub, locals, returned)"""
        for dep_mod, dep_fn, dep_cfg in cfg.get('deps', ()):
            self.functions[dep_fn] = self.load(dep_mod, dep_fn, dep_cfg)
        f = self.load(mod, fname, cfg)
        stub = SelfStub(self, cfg) if cfg.get('method', True) else None
        if stub is not None:
            stub._vals['convert_to_spline'] = lambda arr: Opaque(arr.args[0] if isinstance(arr, E) and arr.op == 'sym' else 'conv')
        self.captured, self.returned = None, None
        if stub is not None:
            f(stub, *args, **(kwargs or {}))
        else:
            stub = SelfStub(self, cfg)
            stub._vals['convert_to_spline'] = lambda arr: Opaque(arr.args[0] if isinstance(arr, E) and arr.op == 'sym' else 'conv')
            pos = cfg.get('stub_pos', 0)
            a = list(args)
            a.insert(pos, stub)
            f(*a, **(kwargs or {}))
        return stub, self.captured, self.returned


def source_hashes():
    out = {}
    d = os.path.join(REPO, 'qsc')
    for fn in sorted(os.listdir(d)):
        if fn.endswith('.py'):
            out[fn] = hashlib.sha256(open(os.path.join(d, fn), 'rb').read()).hexdigest()[:16]
    return out
