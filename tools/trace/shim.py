"""NumPy / object shims on which the real pyQSC functions are executed symbolically."""
from fractions import Fraction
import builtins
from expr import E, Pt, SymInt, LoopIndex, Cond, TraceAbort, to_frac


def call(name, *args):
    return E('call', (name,) + tuple(E.lift(a) for a in args))


# --------------------------------------------------------------------------- differentiation operators
class Col:
    """x[:, None]: a grid array as a column, i.e. a factor that scales the ROWS of a matrix it multiplies"""
    def __init__(self, e):
        self.e = E.lift(e)

    def _num(self, o):
        if isinstance(o, (int, float, Fraction)) and not isinstance(o, bool):
            return E.num(o)
        return None

    def __neg__(self): return Col(-self.e)

    def __mul__(self, o):
        if isinstance(o, DMat):
            return Op([(self.e * E.num(1), o.name, E.num(1))], None)      # same spelling as `x[j] * d_d_varphi[j, :]`
        if isinstance(o, Op):
            return Op([(self.e * p, d, q) for (p, d, q) in o.terms], None if o.diag is None else self.e * o.diag)
        if isinstance(o, Col):
            return Col(self.e * o.e)
        v = self._num(o)
        return NotImplemented if v is None else Col(self.e * v)

    def __rmul__(self, o):
        v = self._num(o)
        return NotImplemented if v is None else Col(v * self.e)

    def __truediv__(self, o):
        if isinstance(o, Col):
            return Col(self.e / o.e)
        v = self._num(o)
        return NotImplemented if v is None else Col(self.e / v)


class DMat:
    """A differentiation matrix known only by name (an input operator)."""
    def __init__(self, name):
        self.name = name

    def apply(self, x):
        return E('D', (self.name, E.lift(x)))

    def __matmul__(self, x):
        return self.apply(x)

    def __getitem__(self, idx):
        if isinstance(idx, tuple) and len(idx) == 2 and isinstance(idx[0], LoopIndex) and idx[1] == slice(None):
            return DRow(self.name)
        raise TraceAbort('unsupported index into differentiation matrix: %r' % (idx,))

    def as_op(self):
        return Op([(E.num(1), self.name, E.num(1))], None)

    def __truediv__(self, o):
        if isinstance(o, Col):        # every row j divided by x[j]: the same operator as the row loop builds
            return Op([(E.num(1) / o.e, self.name, E.num(1))], None)
        return NotImplemented


class DRow:
    """row j of a differentiation matrix"""
    def __init__(self, name):
        self.name = name

    def _op(self):
        return Op([(E.num(1), self.name, E.num(1))], None)

    def __mul__(self, o): return self._op() * o
    def __rmul__(self, o): return o * self._op() if not isinstance(o, (int, float)) else self._op().__rmul__(o)
    def __truediv__(self, o): return self._op() / o
    def __neg__(self): return -self._op()


class Op:
    """x |-> sum_k pre_k * D_k(post_k * x) + diag * x   (a matrix acting on grid arrays)"""
    def __init__(self, terms, diag):
        self.terms = list(terms)
        self.diag = diag

    def _scal(self, o):
        if isinstance(o, Pt):
            return o.e
        if isinstance(o, (int, float, Fraction)) and not isinstance(o, bool):
            return E.num(o)
        return None

    def __rmul__(self, o):            # scalar-at-row j (or number) times row
        v = self._scal(o)
        if v is None:
            return NotImplemented
        return Op([(v * p, d, q) for (p, d, q) in self.terms], None if self.diag is None else v * self.diag)

    def __mul__(self, o):             # row times full array: scales columns
        if isinstance(o, E):
            if self.diag is not None:
                raise TraceAbort('column scaling of a row with a diagonal part')
            return Op([(p, d, q * o) for (p, d, q) in self.terms], None)
        v = self._scal(o)
        if v is None:
            return NotImplemented
        return self.__rmul__(o)

    def __truediv__(self, o):
        v = self._scal(o)
        if v is None:
            return NotImplemented
        return Op([(p / v, d, q) for (p, d, q) in self.terms], None if self.diag is None else self.diag / v)

    def __neg__(self):
        return Op([(-p, d, q) for (p, d, q) in self.terms], None if self.diag is None else -self.diag)

    def __add__(self, o):
        if isinstance(o, DRow):
            o = o._op()
        if isinstance(o, Op):
            dg = self.diag if o.diag is None else (o.diag if self.diag is None else self.diag + o.diag)
            return Op(self.terms + o.terms, dg)
        return NotImplemented

    def __sub__(self, o):
        if isinstance(o, DRow):
            o = o._op()
        if isinstance(o, Op):
            return self + (-o)
        return NotImplemented

    def add_diag(self, e):
        return Op(self.terms, e if self.diag is None else self.diag + e)

    def apply(self, x):
        x = E.lift(x)
        acc = None
        for (p, d, q) in self.terms:
            inner = x if (q.is_num() and q.args[0] == 1) else q * x
            t = E('D', (d, inner))
            if not (p.is_num() and p.args[0] == 1):
                t = p * t
            acc = t if acc is None else acc + t
        if self.diag is not None:
            t = self.diag * x
            acc = t if acc is None else acc + t
        if acc is None:
            return E('num', (Fraction(0),), zero_array=True)
        return acc

    def __matmul__(self, x):
        return self.apply(x)


class OpMatrix:
    """np.zeros((nphi, nphi)) filled row by row inside `for j in range(nphi)`"""
    def __init__(self):
        self.op = Op([], None)

    def __setitem__(self, idx, val):
        if isinstance(idx, tuple) and len(idx) == 2 and isinstance(idx[0], LoopIndex) and idx[0].block == 0 and idx[1] == slice(None):
            if isinstance(val, DRow):
                val = val._op()
            if not isinstance(val, Op):
                raise TraceAbort('row of operator matrix set to a non-row')
            self.op = val
            return
        raise TraceAbort('unsupported assignment into operator matrix: %r' % (idx,))

    def __getitem__(self, idx):
        raise TraceAbort('reading an assembled operator matrix by index: %r' % (idx,))

    def apply(self, x):
        return self.op.apply(x)

    def __matmul__(self, x):
        return self.apply(x)


class MatEntry:
    def __init__(self, key):
        self.key = key
        self.add = None

    @staticmethod
    def _v(o):
        # with `j = np.arange(nphi)` the diagonal update is written with whole arrays instead of values at point j
        return o.e if isinstance(o, Pt) else (o if isinstance(o, E) else None)

    def __add__(self, o):
        v = MatEntry._v(o)
        if v is None:
            return NotImplemented
        r = MatEntry(self.key)
        r.add = v if self.add is None else self.add + v
        return r

    def __sub__(self, o):
        v = MatEntry._v(o)
        if v is None:
            return NotImplemented
        r = MatEntry(self.key)
        r.add = -v if self.add is None else self.add - v
        return r


class BlockMatrix:
    """np.zeros((k*nphi, k*nphi)): blocks of operators"""
    def __init__(self, k):
        self.k = k
        self.blocks = {}

    @staticmethod
    def _colblock(s):
        if isinstance(s, slice):
            lo = s.start if s.start is not None else 0
            lo = lo.block() if isinstance(lo, SymInt) else (0 if lo == 0 else None)
            hi = s.stop
            hi = hi.block() if isinstance(hi, SymInt) else (lo + 1 if (hi is None and lo is not None) else None)      # `m[nphi:]`: the last block
            if lo is None or hi is None or hi != lo + 1 or s.step is not None:
                raise TraceAbort('column slice is not one block: %r' % (s,))
            return lo
        raise TraceAbort('bad column index')

    def __setitem__(self, idx, val):
        if isinstance(idx, tuple) and len(idx) == 2 and isinstance(idx[0], slice) and isinstance(idx[1], slice):
            # whole block at once (vectorised assembly): matrix[rows of block rb, columns of block cb] = operator
            rb, cb = self._colblock(idx[0]), self._colblock(idx[1])
            if isinstance(val, DMat):
                val = val.as_op()
            if not isinstance(val, Op):
                raise TraceAbort('block set to a non-operator')
            self.blocks[(rb, cb)] = val
            return
        if not (isinstance(idx, tuple) and len(idx) == 2 and isinstance(idx[0], LoopIndex)):
            raise TraceAbort('unsupported assignment into block matrix: %r' % (idx,))
        rb = idx[0].block
        if isinstance(idx[1], LoopIndex):
            cb = idx[1].block
            if not isinstance(val, MatEntry) or val.key != (rb, cb):
                raise TraceAbort('diagonal entry set to something other than itself plus a pointwise value')
            if val.add is not None:
                cur = self.blocks.get((rb, cb), Op([], None))
                self.blocks[(rb, cb)] = cur.add_diag(val.add)
            return
        cb = self._colblock(idx[1])
        if isinstance(val, DRow):
            val = val._op()
        if not isinstance(val, Op):
            raise TraceAbort('row block set to a non-row')
        self.blocks[(rb, cb)] = val

    def __getitem__(self, idx):
        if isinstance(idx, tuple) and len(idx) == 2 and isinstance(idx[0], LoopIndex) and isinstance(idx[1], LoopIndex):
            return MatEntry((idx[0].block, idx[1].block))
        raise TraceAbort('unsupported read of block matrix: %r' % (idx,))


class BlockVector:
    def __init__(self, k):
        self.k = k
        self.blocks = {}

    def __setitem__(self, idx, val):
        self.blocks[BlockMatrix._colblock(idx)] = E.lift(val)


class Solution:
    def __init__(self, matrix, rhs, names):
        self.matrix, self.rhs, self.names = matrix, rhs, names

    def __getitem__(self, idx):
        b = BlockMatrix._colblock(idx)
        return E.sym(self.names[b])


# --------------------------------------------------------------------------- small tensors over the grid
class ND:
    """array of shape `shape` (tuple of ints) of grid arrays; the grid axis is first or last"""
    __array_priority__ = 3000

    def __init__(self, shape, data=None, grid_first=False):
        self.shape = tuple(shape)
        self.data = dict(data or {})
        self.grid_first = grid_first

    @staticmethod
    def from_nested(x):
        def shape_of(y):
            if isinstance(y, (list, tuple)):
                return (len(y),) + shape_of(y[0])
            if isinstance(y, ND):
                return y.shape
            return ()
        sh = shape_of(x)
        out = ND(sh)
        def fill(y, pre):
            if isinstance(y, (list, tuple)):
                for i, z in enumerate(y):
                    fill(z, pre + (i,))
            elif isinstance(y, ND):
                for k, v in y.data.items():
                    out.data[pre + k] = v
            else:
                out.data[pre] = E.lift(y)
        fill(x, ())
        return out

    def _strip(self, idx):
        if not isinstance(idx, tuple):
            idx = (idx,)
        idx = list(idx)
        if self.grid_first:
            if not idx or idx[0] != slice(None):
                raise TraceAbort('grid axis must be indexed with ":" (%r)' % (idx,))
            idx = idx[1:]
        elif len(idx) == len(self.shape) + 1:
            if idx[-1] != slice(None):
                raise TraceAbort('grid axis must be indexed with ":"')
            idx = idx[:-1]
        for i in idx:
            if not (isinstance(i, int) and not isinstance(i, bool)):
                raise TraceAbort('component index must be a concrete int, got %r' % (i,))
        if len(idx) > len(self.shape):
            raise TraceAbort('too many indices')
        return tuple(idx)

    def get(self, key):
        v = self.data.get(key)
        if v is None:
            return E('num', (Fraction(0),), zero_array=True)
        return v

    def __getitem__(self, idx):
        if isinstance(idx, tuple) and any(i is None for i in idx):
            # x[None, :, :] / x[:, None, :]: new component axes of length 1 (NumPy broadcasting of small tensors)
            rest = [i for i in idx if i is not None]
            if any(i != slice(None) for i in rest) or len(rest) != len(self.shape) + 1:
                raise TraceAbort('np.newaxis mixed with component indexing')
            comp = list(idx[1:]) if self.grid_first else list(idx[:-1])
            pos = [k for k, i in enumerate(comp) if i is None]
            shape, src = [], iter(self.shape)
            for i in comp:
                shape.append(1 if i is None else next(src))
            out = ND(tuple(shape), grid_first=self.grid_first)
            for k, v in self.data.items():
                kk, it = [], iter(k)
                for i in comp:
                    kk.append(0 if i is None else next(it))
                out.data[tuple(kk)] = v
            return out
        key = self._strip(idx)
        if len(key) == len(self.shape):
            return self.get(key)
        sub = ND(self.shape[len(key):], grid_first=False)
        for k, v in self.data.items():
            if k[:len(key)] == key:
                sub.data[k[len(key):]] = v
        return sub

    def __setitem__(self, idx, val):
        if (idx == slice(None) or idx is Ellipsis) and isinstance(val, ND) and val.shape == self.shape:
            self.data = dict(val.data)          # x[:] = y: every component replaced
            return
        key = self._strip(idx)
        if len(key) != len(self.shape):
            raise TraceAbort('partial assignment into tensor')
        self.data[key] = E.lift(val)

    @property
    def T(self):
        return self.transpose()

    def transpose(self, *a):
        r = ND(self.shape, self.data, grid_first=not self.grid_first)
        return r

    def keys(self):
        import itertools
        return list(itertools.product(*[range(n) for n in self.shape]))

    def _ew(self, o, f):
        if isinstance(o, ND):
            if o.shape != self.shape:
                if len(o.shape) != len(self.shape) or any(a != b and 1 not in (a, b) for a, b in zip(self.shape, o.shape)):
                    raise TraceAbort('shape mismatch')
                shape = tuple(max(a, b) for a, b in zip(self.shape, o.shape))
                res = ND(shape, grid_first=self.grid_first)
                for k in res.keys():
                    ka = tuple(0 if self.shape[d] == 1 else k[d] for d in range(len(shape)))
                    kb = tuple(0 if o.shape[d] == 1 else k[d] for d in range(len(shape)))
                    res.data[k] = f(self.get(ka), o.get(kb))
                return res
            return ND(self.shape, {k: f(self.get(k), o.get(k)) for k in self.keys()}, self.grid_first)
        if isinstance(o, Col):       # x[:, None] against an (nphi, k) tensor: the same grid array for every component
            o = o.e
        o = E.lift(o)
        return ND(self.shape, {k: f(self.get(k), o) for k in self.keys()}, self.grid_first)

    def __add__(self, o): return self._ew(o, lambda a, b: a + b)
    def __radd__(self, o): return self._ew(o, lambda a, b: b + a)
    def __sub__(self, o): return self._ew(o, lambda a, b: a - b)
    def __rsub__(self, o): return self._ew(o, lambda a, b: b - a)
    def __mul__(self, o): return self._ew(o, lambda a, b: a * b)
    def __rmul__(self, o): return self._ew(o, lambda a, b: b * a)
    def __truediv__(self, o): return self._ew(o, lambda a, b: a / b)
    def __neg__(self): return ND(self.shape, {k: -self.get(k) for k in self.keys()}, self.grid_first)
    def __pow__(self, k): return ND(self.shape, {kk: self.get(kk) ** k for kk in self.keys()}, self.grid_first)

    def __iter__(self):
        for i in range(self.shape[0]):
            yield self[i] if not self.grid_first else self[(slice(None), i)]

    def __len__(self):
        return self.shape[0]


class Opaque:
    """result of a library object we do not model (splines, argmax, ...)"""
    def __init__(self, what):
        self.what = what

    def __call__(self, *a):
        return call('spline_' + self.what, *a)

    # arithmetic on a value the model does not follow stays such a value; it can only end in a hand-modelled hole (where it
    # is replaced by the hole's symbol) or be dropped - an attribute that receives it is simply not part of the model
    def _absorb(self, *a):
        return Opaque(self.what if self.what in ('cumsum', 'concatenate') else 'derived')
    __add__ = __radd__ = __sub__ = __rsub__ = __mul__ = __rmul__ = __truediv__ = __rtruediv__ = _absorb
    def __neg__(self): return self._absorb()


class CoefArr:
    """Fourier coefficient vectors rc, zs, rs, zc: only touched by hand-modelled code"""
    def __init__(self, name):
        self.name = name

    def __len__(self):
        return 0

    def __getitem__(self, i):
        raise TraceAbort('axis coefficient array read inside translated code')


class Logger:
    def __getattr__(self, n):
        return lambda *a, **k: None


class NP:
    """the subset of numpy the translated functions use"""
    pi = E.sym('pi')

    class linalg:
        LinAlgError = ArithmeticError
        solve_names = None

        @staticmethod
        def solve(m, b):
            if isinstance(m, BlockMatrix) and isinstance(b, BlockVector):
                if NP.linalg.solve_names is None:
                    raise TraceAbort('np.linalg.solve without configured solution names')
                s = Solution(m, b, NP.linalg.solve_names)
                NP.linalg.last = s
                return s
            raise TraceAbort('np.linalg.solve on unsupported operands')

    @staticmethod
    def zeros(shape):
        if isinstance(shape, SymInt):
            if (shape.a, shape.b) == (1, 0):
                return E('num', (Fraction(0),), zero_array=True)
            if shape.b == 0:
                return BlockVector(shape.a)
            raise TraceAbort('np.zeros(%r)' % (shape,))
        if isinstance(shape, tuple):
            if len(shape) == 2 and all(isinstance(s, SymInt) for s in shape):
                if shape[0] == shape[1] and shape[0].b == 0:
                    return OpMatrix() if shape[0].a == 1 else BlockMatrix(shape[0].a)
            if isinstance(shape[0], SymInt) and (shape[0].a, shape[0].b) == (1, 0) and all(isinstance(s, int) for s in shape[1:]):
                return ND(shape[1:], grid_first=True)
            if shape and all(isinstance(s, int) and not isinstance(s, bool) for s in shape):
                return ND(shape, grid_first=True)       # `np.zeros(a.shape)` for a small tensor `a` over the grid (its shape omits the grid axis here)
        raise TraceAbort('np.zeros(%r)' % (shape,))

    @staticmethod
    def full(shape, v):
        if isinstance(shape, SymInt) and (shape.a, shape.b) == (1, 0):
            return E.lift(v)
        raise TraceAbort('np.full(%r)' % (shape,))

    @staticmethod
    def copy(x):
        if isinstance(x, E):
            return E('copy', (x,))
        if isinstance(x, DMat):
            return x
        raise TraceAbort('np.copy of %r' % (type(x),))

    @staticmethod
    def array(x):
        if isinstance(x, (list, tuple)):
            return ND.from_nested(x)
        if isinstance(x, (ND, E)):
            return x
        raise TraceAbort('np.array of %r' % (type(x),))

    @staticmethod
    def transpose(x, axes=None):
        if isinstance(x, ND):
            if axes is None or (x.grid_first and tuple(axes) == tuple(range(1, len(x.shape) + 1)) + (0,)):
                return x.transpose()
        raise TraceAbort('np.transpose')

    newaxis = None

    @staticmethod
    def arange(n):
        # `j = np.arange(nphi)`: all grid points at once - the same object as the loop variable of `for j in range(nphi)`
        if isinstance(n, SymInt) and (n.a, n.b) == (1, 0):
            return LoopIndex(0)
        raise TraceAbort('np.arange(%r)' % (n,))

    @staticmethod
    def stack(xs, axis=0):
        # np.stack([a, b, c], axis=1) == np.array([a, b, c]).transpose() for grid arrays
        r = ND.from_nested(list(xs))
        if axis in (1, -1):
            return r.transpose()
        if axis == 0:
            return r
        raise TraceAbort('np.stack axis %r' % (axis,))

    @staticmethod
    def ascontiguousarray(x):
        return x

    @staticmethod
    def multiply(a, b, **k):
        return a * b

    @staticmethod
    def add(a, b, **k):
        return a + b

    @staticmethod
    def subtract(a, b, **k):
        return a - b

    @staticmethod
    def divide(a, b, **k):
        return a / b

    @staticmethod
    def moveaxis(x, src, dst):
        # the grid axis moved from first to last (or back): the same tensor with the other orientation
        if isinstance(x, ND) and ((src, dst) in ((0, -1), (-1, 0))):
            return x.transpose()
        raise TraceAbort('np.moveaxis(%r, %r)' % (src, dst))

    @staticmethod
    def column_stack(xs):
        return NP.stack(xs, axis=1)

    @staticmethod
    def cross(a, b):
        # rows of two (nphi, 3) arrays
        if isinstance(a, ND) and isinstance(b, ND) and a.shape == (3,) and b.shape == (3,):
            g = lambda v, k: v.get((k,))
            out = ND((3,), grid_first=a.grid_first)
            out.data[(0,)] = g(a, 1) * g(b, 2) - g(a, 2) * g(b, 1)
            out.data[(1,)] = g(a, 2) * g(b, 0) - g(a, 0) * g(b, 2)
            out.data[(2,)] = g(a, 0) * g(b, 1) - g(a, 1) * g(b, 0)
            return out
        raise TraceAbort('np.cross on unsupported operands')

    @staticmethod
    def cumsum(x, *a, **k):
        return Opaque('cumsum')        # a running sum is a loop: only meaningful where a hand-modelled hole takes its result

    @staticmethod
    def concatenate(xs, *a, **k):
        if any(isinstance(x, Opaque) for x in xs):
            return Opaque('concatenate')
        if len(xs) >= 2 and all(isinstance(x, E) for x in xs):
            # the right-hand side of a block system put together from its blocks
            bv = BlockVector(len(xs))
            for k_, x in enumerate(xs):
                bv.blocks[k_] = x
            return bv
        raise TraceAbort('np.concatenate in translated code')

    @staticmethod
    def matmul(a, b):
        if isinstance(a, (DMat, OpMatrix, Op)):
            return a.apply(b)
        raise TraceAbort('np.matmul with a non-operator left factor')

    @staticmethod
    def sum(x, axis=None):
        if isinstance(x, ND):
            if axis is not None and tuple(axis) != tuple(range(1, len(x.shape) + 1)):
                raise TraceAbort('np.sum axis')
            acc = None
            for k in x.keys():
                acc = x.get(k) if acc is None else acc + x.get(k)
            return acc
        if axis is not None:
            raise TraceAbort('np.sum axis on array')
        return call('sum', x)

    @staticmethod
    def max(x):
        if isinstance(x, E):
            return call('amax', x)
        raise TraceAbort('np.max of %r' % (type(x),))

    @staticmethod
    def min(x):
        if isinstance(x, E):
            return call('amin', x)
        raise TraceAbort('np.min of %r' % (type(x),))

    @staticmethod
    def abs(x):
        if isinstance(x, ND):
            raise TraceAbort('np.abs of tensor')
        return call('abs', x)

    @staticmethod
    def sqrt(x): return call('sqrt', x)
    @staticmethod
    def sin(x): return call('sin', x)
    @staticmethod
    def cos(x): return call('cos', x)
    @staticmethod
    def exp(x): return call('exp', x)
    @staticmethod
    def arctan2(y, x): return call('atan2', y, x)

    @staticmethod
    def append(a, b): return Opaque('append')

    @staticmethod
    def argmax(x): return Opaque('argmax')
    @staticmethod
    def argmin(x): return Opaque('argmin')

    @staticmethod
    def real(x): raise TraceAbort('np.real in translated code')

    def __getattr__(self, n):
        raise TraceAbort('numpy.%s is not supported by the translator' % n)


def sym_range(*a):
    if len(a) == 1 and isinstance(a[0], SymInt):
        if (a[0].a, a[0].b) != (1, 0):
            raise TraceAbort('range(%r)' % (a[0],))
        return [LoopIndex(0)]
    if any(isinstance(x, (SymInt, E)) for x in a):
        raise TraceAbort('range with symbolic bounds other than range(nphi)')
    return builtins.range(*a)
