#!/usr/bin/env python3
"""Numerical validation of tools/trace/weights.json against the real pyQSC (/repo/qsc).

For one general non-symmetric r3 configuration the transformed object is built for each of the seven elementary
transformations (length unit, field unit, field reversal, mirror, toroidal reversal, origin shift, field-period
repetition) and every numeric attribute is compared with the claimed law   x' = weight * (x o pi).
Also *measures* the law of each attribute (exponent / sign / none), which is printed for attributes that disagree with
or are missing from the table.   Usage: validate_weights.py [--json out.json] [--measure]
Exit status 1 if an attribute with a claimed law violates it (beyond tolerance).
"""
import sys, os, json, warnings, logging, math
sys.path.insert(0, os.environ.get('QSC_REPO', '/repo'))
warnings.simplefilter('ignore')
logging.disable(logging.CRITICAL)
import numpy as np
from qsc import Qsc

HERE = os.path.dirname(os.path.abspath(__file__))
BASE = dict(rc=[1, 0.09, 0.01], zs=[0, -0.08, 0.012], rs=[0, 0.01], zc=[0, 0.015], nfp=3, etabar=0.9, sigma0=0.2, I2=0.4,
            B2c=-0.6, B2s=0.3, p2=-2e5, B0=1.3, order='r3', nphi=31)
# a quasi-helically symmetric axis shape (helicity != 0) made non-stellarator-symmetric
BASE_QH = dict(rc=[1, 0.17, 0.01804, 0.001409], zs=[0, 0.1581, 0.01820, 0.001548], rs=[0, 0.004], zc=[0, 0.003], nfp=3,
               etabar=1.569, sigma0=0.1, I2=0.1, B2c=0.1348, B2s=0.05, p2=-5e3, B0=1.1, order='r3', nphi=35)
LAM, CEE, MSHIFT = 1.7, 2.3, 4
TOL = 2e-7


def scaled(p, lam=1.0, c=1.0):
    q = dict(p)
    for k in ('rc', 'zs', 'rs', 'zc'):
        q[k] = [lam * x for x in p[k]]
    q['etabar'] = p['etabar'] / lam
    q['I2'] = p['I2'] * c / lam
    q['B2c'] = p['B2c'] * c / lam ** 2
    q['B2s'] = p['B2s'] * c / lam ** 2
    q['p2'] = p['p2'] * c ** 2 / lam ** 2
    q['B0'] = p['B0'] * c
    return q


def field_reversed(p):
    q = dict(p)
    q['sG'] = -p.get('sG', 1); q['spsi'] = -p.get('spsi', 1); q['I2'] = -p['I2']
    return q


def mirrored(p):
    q = dict(p)
    q['zs'] = [-x for x in p['zs']]; q['zc'] = [-x for x in p['zc']]
    q['sigma0'] = -p['sigma0']; q['I2'] = -p['I2']; q['B2s'] = -p['B2s']
    return q


def tor_reversed(p):
    q = dict(p)
    q['rs'] = [-x for x in p['rs']]; q['zs'] = [-x for x in p['zs']]; q['I2'] = -p['I2']
    return q


def shifted(p, base_obj, m):
    """origin moved to grid point m of the base object"""
    q = dict(p)
    nf = max(len(p[k]) for k in ('rc', 'zs', 'rs', 'zc'))
    g = {k: list(p[k]) + [0.0] * (nf - len(p[k])) for k in ('rc', 'zs', 'rs', 'zc')}
    phi0 = base_obj.phi[m]
    rc, rs, zc, zs = [], [], [], []
    for n in range(nf):
        a = n * p['nfp'] * phi0
        rc.append(g['rc'][n] * math.cos(a) + g['rs'][n] * math.sin(a))
        rs.append(-g['rc'][n] * math.sin(a) + g['rs'][n] * math.cos(a))
        zc.append(g['zc'][n] * math.cos(a) + g['zs'][n] * math.sin(a))
        zs.append(-g['zc'][n] * math.sin(a) + g['zs'][n] * math.cos(a))
    q.update(rc=rc, rs=rs, zc=zc, zs=zs, sigma0=float(base_obj.sigma[m]))
    return q


def repeated(p, k):
    q = dict(p)
    assert p['nfp'] % k == 0
    for key in ('rc', 'zs', 'rs', 'zc'):
        out = [0.0] * ((len(p[key]) - 1) * k + 1) if p[key] else []
        for n, x in enumerate(p[key]):
            out[n * k] = x
        q[key] = out
    q['nfp'] = p['nfp'] // k
    q['nphi'] = p['nphi'] * k
    return q


def attributes(q):
    """name -> numpy array (grid profile or scalar); vectors/tensors split into components with the Gen naming"""
    out = {}
    n = q.nphi
    for k, v in vars(q).items():
        if k in ('rc', 'zs', 'rs', 'zc', 'nfourier', 'min_R0_threshold', 'd_d_phi', 'd_d_varphi', 'order',
                 'r_singularity_theta_vs_varphi', 'r_singularity_residual_sqnorm'):
            continue
        if isinstance(v, bool) or not isinstance(v, (int, float, np.floating, np.integer, np.ndarray)):
            continue
        v = np.asarray(v, dtype=float)
        if v.ndim <= 1:
            out[k] = v
        elif k.endswith('_cylindrical') and v.shape == (n, 3):
            for a in range(3):
                out['%s_%d' % (k, a)] = v[:, a]
        elif k == 'grad_B_tensor_cylindrical':           # shape (3,3,nphi)
            for a in range(3):
                for b in range(3):
                    out['%s_%d%d' % (k, a, b)] = v[a, b, :]
        elif k == 'grad_grad_B':                          # shape (nphi,3,3,3)
            for a in range(3):
                for b in range(3):
                    for c in range(3):
                        out['%s_%d%d%d' % (k, a, b, c)] = v[:, a, b, c]
    st = getattr(q, 'grad_B_tensor', None)
    if st is not None:
        for c in ('tn', 'nt', 'bb', 'nn', 'bn', 'nb', 'tt'):
            out['grad_B_tensor_' + c] = np.asarray(getattr(st, c), dtype=float)
    return out


def reindex(name, nbase, ntr):
    if name == 'rev':
        return (-np.arange(ntr)) % nbase
    if name == 'shift':
        return (np.arange(ntr) + MSHIFT) % nbase
    if name == 'rep':
        return np.arange(ntr) % nbase
    return np.arange(ntr)


def compare(xb, xt, idx, factor):
    """relative deviation of xt from factor * xb[idx]"""
    if xb.ndim == 0 or xb.size == 1:
        ref = factor * float(xb.reshape(-1)[0]) * np.ones_like(xt)
    else:
        ref = factor * xb[idx]
    if ref.shape != xt.shape:
        return float('inf')
    # 1e30 is the "no singularity found" sentinel of r_singularity (and 1e-30 of its inverse): it does not scale, and
    # whether a root is accepted at a grid point is a tolerance decision; such points are compared as "no value"
    big = (np.abs(ref) > 1e20) | (np.abs(xt) > 1e20) | ((np.abs(ref) < 1e-20) & (np.abs(xt) < 1e-20) & (ref != 0))
    if big.any():
        if big.all():
            return 0.0
        ref, xt = ref[~big], xt[~big]
    sc = max(np.max(np.abs(ref)), np.max(np.abs(xt)), 1e-300)
    return float(np.max(np.abs(ref - xt)) / sc)


def run(BASE, KREP, W, NOLAW, tag):
    base = Qsc(**BASE)
    print('---- configuration %s: nfp=%d helicity=%d iota=%.6f' % (tag, base.nfp, base.helicity, base.iota))
    ab = attributes(base)
    trs = {
        'L': (Qsc(**scaled(BASE, lam=LAM)), LAM), 'B': (Qsc(**scaled(BASE, c=CEE)), CEE),
        'frv': (Qsc(**field_reversed(BASE)), -1), 'mir': (Qsc(**mirrored(BASE)), -1), 'rev': (Qsc(**tor_reversed(BASE)), -1),
        'shift': (Qsc(**shifted(BASE, base, MSHIFT)), 1), 'K': (Qsc(**repeated(BASE, KREP)), KREP),
    }
    idxname = {'rev': 'rev', 'shift': 'shift', 'K': 'rep'}
    report, bad, measured = {}, [], {}
    sentinel = bool(np.any(np.abs(ab.get('r_singularity_vs_varphi', np.zeros(1))) > 1e20))
    if sentinel:
        print('note: r_singularity_vs_varphi contains the 1e30 sentinel; r_singularity / inv_r_singularity_vs_varphi not judged')
    for name in sorted(ab):
        xb = ab[name]
        meas, zero = {}, bool(np.max(np.abs(xb)) < 1e-13)
        for g, (obj, gen) in trs.items():
            at = attributes(obj)
            if name not in at:
                meas[g] = None; continue
            xt = at[name]
            idx = reindex(idxname.get(g, 'id'), base.nphi, obj.nphi)
            found = None
            cands = range(-6, 7) if g in ('L', 'B', 'K') else ((0, 1) if g != 'shift' else (0,))
            for e in cands:
                if compare(xb, xt, idx, float(gen) ** e) < TOL:
                    found = e; break
            meas[g] = found
        measured[name] = dict(meas, zero=zero)
        if name in W:
            w = dict(W[name], shift=0)
            viol = [g for g in meas if not zero and meas[g] != w[g] and not (name == 'sigma0' and g == 'shift')]
            if name in NOSHIFT and base.helicity != 0 and viol == ['shift']:
                viol = []          # documented: the untwisted harmonics of a QH configuration depend on the origin
            if sentinel and name in ('r_singularity', 'inv_r_singularity_vs_varphi'):
                viol = []          # minimum over / inverse of a profile that contains the 1e30 sentinel
            report[name] = dict(claimed=W[name], measured=meas, ok=not viol, violated=viol, zero=zero)
            if viol:
                bad.append(name)
        elif name in COND:
            w = {g: COND[name][g] for g in ('L', 'B', 'frv', 'mir')}
            viol = [g for g in w if not zero and meas[g] != w[g]]
            report[name] = dict(claimed=w, conditional=COND[name]['condition'], measured=meas, ok=not viol, violated=viol, zero=zero)
            print('COND     %-45s measured %s' % (name, meas))
            if viol:
                bad.append(name)
        elif name in NOLAW:
            report[name] = dict(claimed=None, measured=meas, ok=True, why=NOLAW[name], zero=zero)
        else:
            report[name] = dict(claimed='MISSING', measured=meas, ok=True, zero=zero)
    for name in sorted(report):
        r = report[name]
        if r['claimed'] == 'MISSING':
            print('MISSING  %-45s measured %s%s' % (name, r['measured'], ' (zero)' if r['zero'] else ''))
        elif r['claimed'] is None:
            print('NOLAW    %-45s measured %s' % (name, r['measured']))
        elif not r['ok']:
            print('VIOLATED %-45s claimed %s measured %s' % (name, r['claimed'], r['measured']))
    nclaimed = sum(1 for r in report.values() if isinstance(r['claimed'], dict))
    print('%d attributes compared; %d with a claimed law, %d violated' % (len(report), nclaimed, len(bad)))
    return report, bad


def main():
    args = sys.argv[1:]
    wj = json.load(open(os.path.join(HERE, 'weights.json')))
    W, NOLAW = wj['attrs'], wj['nolaw']
    global NOSHIFT, COND
    COND = wj.get('conditional', {})
    NOSHIFT = set(wj.get('noshift_when_helical', []))
    rep1, bad1 = run(BASE, 3, W, NOLAW, 'QA-like')
    rep2, bad2 = run(BASE_QH, 3, W, NOLAW, 'QH-like')
    if '--json' in args:
        with open(args[args.index('--json') + 1], 'w') as f:
            json.dump({'QA': rep1, 'QH': rep2}, f, indent=1, sort_keys=True)
    sys.exit(1 if bad1 or bad2 else 0)


if __name__ == '__main__':
    main()
