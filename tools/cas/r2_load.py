"""Trace /repo/qsc/calculate_r2.py with the translator and return the second-order quantities as sympy expressions
in the atoms of c10_core ("independent form": inside an expression, a sub-expression that is itself one of the
named shape functions is replaced by its atom; `np.matmul(d_d_varphi, ·)` is the derivation `Dsym`)."""
import sys, os
HERE = os.path.dirname(os.path.abspath(__file__))
sys.path.insert(0, os.path.join(HERE, '..', 'trace'))
sys.setrecursionlimit(100000)
import sympy as sp
from c10_core import S, D1, Dsym, sG, lp, B0, kap, tau, Y1c, Y1s

NAMED = ['X20', 'X2s', 'X2c', 'Y20', 'Y2s', 'Y2c', 'Z20', 'Z2s', 'Z2c', 'B20', 'G2', 'beta_1s']
beta1s = sp.Symbol('beta1s')
ATOM_OF = {n: S[n] for n in NAMED if n in S}
ATOM_OF['beta_1s'] = beta1s


def load():
    from tracer import Tracer
    from modules import MODULES
    import emit
    m = MODULES['R2']
    cfg = m['variants']['hN']
    tr = Tracer()
    stub, loc, ret = tr.run(m['mod'], m['fname'], cfg, m['args'], m['kwargs'])
    items = dict(emit.collect_items(m, stub, loc, ret))
    named_uid = {items[n].uid: n for n in NAMED}
    inp = {'curvature': kap, 'torsion': tau, 'G0': sG * lp * B0, 'sigma': Y1c / Y1s, 'mu0': sp.Symbol('mu0')}

    def conv(e, memo, top=False):
        if not top and e.uid in named_uid:
            return ATOM_OF[named_uid[e.uid]]
        if e.uid in memo and not top:
            return memo[e.uid]
        op = e.op
        if op == 'sym':
            n = e.args[0]
            r = inp[n] if n in inp else (S[n] if n in S else sp.Symbol(n))
        elif op == 'num':
            r = sp.Rational(e.args[0].numerator, e.args[0].denominator)
        elif op in ('add', 'sub', 'mul', 'div'):
            a, b = conv(e.args[0], memo), conv(e.args[1], memo)
            r = {'add': a + b, 'sub': a - b, 'mul': a * b, 'div': a / b}[op]
        elif op == 'neg':
            r = -conv(e.args[0], memo)
        elif op == 'pow':
            r = conv(e.args[0], memo) ** e.args[1]
        elif op == 'copy':
            r = conv(e.args[0], memo)
        elif op == 'D':
            assert e.args[0] == 'd_d_varphi'
            r = Dsym(conv(e.args[1], memo))
        elif op == 'call' and e.args[0] == 'abs':
            a = e.args[1]
            assert a.op == 'sym' and a.args[0] == 'G0'
            r = lp * B0
        else:
            raise ValueError('unsupported node %s %r' % (op, e.args[:1]))
        if not top:
            memo[e.uid] = r
        return r

    out = {}
    memo = {}
    for n in ['X2s', 'X2c', 'Y2s', 'Y2c', 'Z20', 'Z2s', 'Z2c', 'B20', 'G2', 'beta_1s', 'eq1_lhs', 'eq1_rhs', 'eq2_lhs', 'eq2_rhs']:
        out[n] = conv(items[n], memo, top=True)
    return out


if __name__ == '__main__':
    d = load()
    for k, v in d.items():
        print(k, '=', v if sp.count_ops(v) < 200 else '... %d ops' % sp.count_ops(v), sorted(map(str, v.free_symbols)))
