# sanity: C04.ode1/ode2 (independent form) agree with the linear system traced from the current source
import sympy as sp
from c10_core import *
from c10_rel2 import *
d = r2_load.load()
od = c04_odes()
sub = {Y2s: d['Y2s'], Y2c: d['Y2c'], D1['Y2s']: Dsym(d['Y2s']), D1['Y2c']: Dsym(d['Y2c'])}
first = {X1c: etabar/kap, Y1s: sG*spsi*kap/etabar, D1['X1c']: Dsym(etabar/kap), D1['Y1s']: Dsym(sG*spsi*kap/etabar)}
for n, (l, r) in (('ode1', ('eq1_lhs', 'eq1_rhs')), ('ode2', ('eq2_lhs', 'eq2_rhs'))):
    e = B0*(d[l] - d[r]) - od[n].xreplace(sub)
    e = e.xreplace(first)
    num = sp.expand(sp.fraction(sp.together(e))[0])
    P = sp.Poly(num, sG, spsi)
    num = sp.expand(sum(c*sG**(a%2)*spsi**(b%2) for (a,b),c in P.terms()))
    print(n, 'difference numerator after sign reduction:', num)
