"""Stretch families of C10gen (vacuum: I2 = 0, p2 = 0):  sym23  T[i,j,k] = T[i,k,j]  and  harmonic  Σ_j T[j,j,k] = 0.
They need the full set of O(r²) relations (definitions of Z2*, the B2s/B2c (X2s/X2c) equations, B20, G2, β_1s,
the two ODEs) and the first-order relations (σ-equation, κ X1c = η̄)."""
import os, re, time
import sympy as sp
from c10_core import *
from c10_rel2 import relations2, parse_lean_poly, c04_odes, beta1s, C04
import c10_certs as G

mu0 = S['mu0']; p2 = S['p2']
vac = {I2: 0, p2: 0}

ATOMS2 = 'X1c Y1s Y1c kap tau B0 lp iotaN iota I2 sG spsi X20 X2c X2s Y20 Y2c Y2s Z20 Z2c Z2s B20 B2c B2s G2 etabar mu0 p2 beta1s'.split()
WIRE2 = 'wire2 D X1c Y1s Y1c kap tau B0 lp iotaN iota I2 sG spsi X20 X2c X2s Y20 Y2c Y2s Z2c Z2s B20 B2c B2s G2 (D Z20)'
ODE1_ARGS = 'B0 X1c Y1c Y1s X20 X2c X2s Y20 Y2c Y2s Z20 Z2c Z2s kap tau lp iotaN beta1s I2 sG spsi'
ODE2_ARGS = 'B0 X1c Y1c Y1s X20 X2c X2s Y20 Y2c Y2s Z20 Z2c Z2s kap tau lp iotaN I2 sG spsi'


class LPmul(G.LP):
    """powers as products (hypotheses to which `D` is applied)"""
    def _print_Pow(self, e):
        b, x = e.as_base_exp()
        if x.is_Integer and x > 0:
            return '(' + '*'.join([self.parenthesize(b, 1000)] * int(x)) + ')'
        raise ValueError(e)


PM = LPmul().doprint


def setup():
    raw, rel2 = relations2()
    relg = dict(REL)                      # general (I2, p2 present)
    relg.update(rel2)
    # hand-written statements (checked against the polynomials below)
    stmt = dict(G.HYP)
    stmt['hσ'] = 'Y1s * (D Y1c) - Y1c * (D Y1s) + iotaN * (X1c*X1c + Y1s*Y1s + Y1c*Y1c) - 2 * (-spsi*tau + I2/B0) * sG * lp = 0'
    stmt['hk'] = 'kap * X1c = etabar'
    stmt['hG2'] = 'G2 = -mu0 * p2 * (sG*lp*B0) / (B0 * B0) - iota * I2'
    stmt['hbeta'] = 'beta1s = -4 * spsi * sG * mu0 * p2 * etabar * (lp*B0) / (iotaN * B0^3)'
    stmt['hode1'] = 'ode1 D %s = 0' % ODE1_ARGS
    stmt['hode2'] = 'ode2 D %s = 0' % ODE2_ARGS
    for k in ['hZ20', 'hZ2s', 'hZ2c']:
        stmt[k] = PM(relg[k]) + ' = 0'
    for k in ['hX2s', 'hX2c', 'hB20']:
        stmt[k] = G.P(relg[k]) + ' = 0'
    # check the hand-written ones
    def chk(name, s, target):
        l, r = s.split(' = ')
        e = parse_lean_poly('(%s) - (%s)' % (l, r))
        assert sp.simplify(e - target) == 0, name
    chk('hσ', stmt['hσ'], relg['hσ'])
    chk('hk', stmt['hk'], relg['hk'])
    chk('hG2', stmt['hG2'], raw['hG2'][0] - raw['hG2'][1])
    chk('hbeta', stmt['hbeta'], raw['hbeta'][0] - raw['hbeta'][1])
    # vacuum relation set used by the certificates
    relv = {k: sp.expand(v.subs(vac)) for k, v in relg.items()}
    relv['hG2'] = G2               # `hG0 : G2 = 0`  derived in the proof from hG2, hI2, hp2
    relv['hbeta'] = beta1s         # `hb0 : beta1s = 0`
    for k in ['hσ', 'hZ20', 'hZ2s', 'hZ2c']:
        relv['D' + k] = sp.expand(Dsym(relv[k]))
    relv['Dhk'] = sp.expand(Dsym(relv['hk'])); relv['DDhk'] = sp.expand(Dsym(relv['Dhk']))
    rs = RelSet(relv)
    dY2c, dY2s, dY20, dX20 = D1['Y2c'], D1['Y2s'], D1['Y20'], D1['X20']
    rs.derive('ode1a', 'hode1', [('Dheq3', dY2c), ('Dheq4', dY2s)])
    rs.derive('ode2a', 'hode2', [('Dheq3', dY2c), ('Dheq4', dY2s)])
    rs.derive('ode2b', 'ode2a', [('ode1a', dY20)])
    return raw, relg, stmt, rs


def steps():
    dY2c, dY2s, dY20, dX20 = D1['Y2c'], D1['Y2s'], D1['Y20'], D1['X20']
    return [('hG2', G2), ('hB20', B20), ('hX2s', B2s), ('hX2c', B2c),
            ('DhZ20', D1['Z20']), ('DhZ2s', D1['Z2s']), ('DhZ2c', D1['Z2c']),
            ('Dheq3', dY2c), ('Dheq4', dY2s), ('ode1a', dY20), ('ode2b', dX20), ('hbeta', beta1s),
            ('hZ20', Z20), ('hZ2s', Z2s), ('hZ2c', Z2c),
            ('heq3', Y2c), ('heq4', Y2s),
            ('Dhσ', D2['Y1c']), ('hσ', D1['Y1c']), ('DDh1', D2['Y1s']), ('Dh1', D1['Y1s']), ('h1', Y1s),
            ('DDhk', D2['kap']), ('Dhk', D1['kap']), ('hk', kap), ('hsG', sG), ('hsp', spsi)]


# relation -> theorem hypotheses it needs ; relation -> `have` line ; relation -> name in the certificate
NEEDS = dict(G.NEEDS)
NEEDS.update({'hσ': ['hσ'], 'Dhσ': ['hσ'], 'hk': ['hk'], 'Dhk': ['hk'], 'DDhk': ['hk'], 'hG2': ['hG2'], 'hbeta': ['hbeta'],
              'hZ20': ['hZ20'], 'DhZ20': ['hZ20'], 'hZ2s': ['hZ2s'], 'DhZ2s': ['hZ2s'], 'hZ2c': ['hZ2c'], 'DhZ2c': ['hZ2c'],
              'hX2s': ['hX2s'], 'hX2c': ['hX2c'], 'hB20': ['hB20'], 'hode1': ['hode1'], 'hode2': ['hode2']})
DERIVED = dict(G.DERIVED)
DERIVED.update({
    'Dhσ': 'have hDσ := dhσ D X1c Y1s Y1c tau B0 lp iotaN 0 sG spsi hsG hsp cB cl ci (map_zero D) hσ',
    'Dhk': 'have hDk := dhk D X1c kap etabar ce hk',
    'DDhk': 'have hDDk := ddhk D X1c kap etabar ce hk',
    'DhZ20': 'have hDZ20 := dhZ20 D X1c Y1s Y1c lp Z20 cl hZ20',
    'DhZ2s': 'have hDZ2s := dhZ2s D X1c Y1s Y1c lp iotaN Z2s cl ci hZ2s',
    'DhZ2c': 'have hDZ2c := dhZ2c D X1c Y1s Y1c lp iotaN Z2c cl ci hZ2c',
    'hG2': 'have hG0 : G2 = 0 := by rw [hG2]; ring',
    'hbeta': 'have hb0 : beta1s = 0 := by rw [hbeta]; ring',
    'hode1': 'simp only [ode1] at hode1',
    'hode2': 'simp only [ode2] at hode2',
})
HNAME = dict(G.HNAME)
HNAME.update({'hσ': 'hσ', 'Dhσ': 'hDσ', 'hk': 'hk', 'Dhk': 'hDk', 'DDhk': 'hDDk', 'hG2': 'hG0', 'hbeta': 'hb0',
              'hZ20': 'hZ20', 'DhZ20': 'hDZ20', 'hZ2s': 'hZ2s', 'DhZ2s': 'hDZ2s', 'hZ2c': 'hZ2c', 'DhZ2c': 'hDZ2c',
              'hX2s': 'hX2s', 'hX2c': 'hX2c', 'hB20': 'hB20', 'hode1': 'hode1', 'hode2': 'hode2'})
HYP_ORDER = ['h1', 'hk', 'hσ', 'heq3', 'heq4', 'hZ20', 'hZ2s', 'hZ2c', 'hX2s', 'hX2c', 'hB20', 'hG2', 'hbeta', 'hode1', 'hode2']

COMMON2 = '''import QscProofs.C10gen.Common
''' + G.HEADER + '''namespace C10gen
open Gen.GGB C10
variable {K : Type} [Field K] [CharZero K] (D : Derivation ℚ K K)
set_option linter.unusedSimpArgs false
set_option linter.unusedVariables false

/-!
## The O(r²) relations used as hypotheses by `sym23_*`, `harmonic_*`

Each hypothesis is the *cleared* polynomial form `m * (q - code) = 0` of the statement `q = code` that
`calculate_r2` makes (traced from the current source by `tools/cas/r2_load.py`, `np.matmul(d_d_varphi, ·)` read as the
derivation `D` and Leibniz-expanded; `dX` stands for `D X`, `lp = |G0|/B0`, `kap`, `tau` = curvature, torsion):
%(reldoc)s
`hode1`, `hode2` are the two O(r²) ODEs (`ode1`, `ode2` below, the independent forms of `C04`), `hσ` the σ-equation
written in the atoms `X1c, Y1s, Y1c` (see `hσ_of_sigma` for the generator form), `hk : κ X1c = η̄`.
-/

/-- first O(r²) ODE in independent form; textually identical to `C04.ode1` -/
def ode1 {K : Type} [Field K] (D : K → K) (B0 X1c Y1c Y1s X20 X2c X2s Y20 Y2c Y2s Z20 Z2c Z2s kap tau lp iotaN beta1s I2 sG spsi : K) : K :=
  %(ode1)s

/-- second O(r²) ODE in independent form; textually identical to `C04.ode2` -/
def ode2 {K : Type} [Field K] (D : K → K) (B0 X1c Y1c Y1s X20 X2c X2s Y20 Y2c Y2s Z20 Z2c Z2s kap tau lp iotaN I2 sG spsi : K) : K :=
  %(ode2)s

theorem y_ne_zero {X1c Y1s sG spsi : K} (hsG : sG * sG = 1) (hsp : spsi * spsi = 1) (h1 : X1c * Y1s = sG * spsi) : Y1s ≠ 0 := by
  rintro rfl
  rw [mul_zero] at h1
  exact mul_ne_zero (sign_ne_zero hsG) (sign_ne_zero hsp) h1.symm

/-- `D` of the σ-equation (in the atoms `X1c, Y1s, Y1c`; `Y1c = Y1s σ`, `X1c Y1s = sG spsi`) -/
theorem dhσ (X1c Y1s Y1c tau B0 lp iotaN I2 sG spsi : K) (hsG : sG * sG = 1) (hsp : spsi * spsi = 1)
    (cB : D B0 = 0) (cl : D lp = 0) (ci : D iotaN = 0) (cI : D I2 = 0)
    (hσ : %(hσ)s) :
    %(Dhσ)s = 0 := by
  have csG := D_sign D sG hsG
  have csp := D_sign D spsi hsp
  have h := congrArg D hσ
  simp only [map_add, map_sub, map_neg, map_zero, Derivation.leibniz, Derivation.leibniz_div, smul_eq_mul, D_ofNat D, csG, csp, cB, cl, ci, cI,
    mul_zero, zero_mul, add_zero, zero_add, sub_zero, zero_div, neg_zero] at h
  linear_combination h

/-- `D` of `κ X1c = η̄` -/
theorem dhk (X1c kap etabar : K) (ce : D etabar = 0) (hk : %(hk)s) :
    %(Dhk)s = 0 := by
  have h := congrArg D hk
  simp only [Derivation.leibniz, smul_eq_mul, ce] at h
  linear_combination h

theorem ddhk (X1c kap etabar : K) (ce : D etabar = 0) (hk : %(hk)s) :
    %(DDhk)s = 0 := by
  have h := congrArg D (dhk D X1c kap etabar ce hk)
  simp only [map_add, map_zero, Derivation.leibniz, smul_eq_mul] at h
  linear_combination h

/-- `D` of the definition of `Z20` -/
theorem dhZ20 (X1c Y1s Y1c lp Z20 : K) (cl : D lp = 0)
    (hZ20 : %(hZ20)s) :
    %(DhZ20)s = 0 := by
  have h := congrArg D hZ20
  simp only [map_add, map_sub, map_neg, map_zero, Derivation.leibniz, smul_eq_mul, D_ofNat D, cl, mul_zero, zero_mul, add_zero, zero_add] at h
  linear_combination h

/-- `D` of the definition of `Z2s` -/
theorem dhZ2s (X1c Y1s Y1c lp iotaN Z2s : K) (cl : D lp = 0) (ci : D iotaN = 0)
    (hZ2s : %(hZ2s)s) :
    %(DhZ2s)s = 0 := by
  have h := congrArg D hZ2s
  simp only [map_add, map_sub, map_neg, map_zero, Derivation.leibniz, smul_eq_mul, D_ofNat D, cl, ci, mul_zero, zero_mul, add_zero, zero_add] at h
  linear_combination h

/-- `D` of the definition of `Z2c` -/
theorem dhZ2c (X1c Y1s Y1c lp iotaN Z2c : K) (cl : D lp = 0) (ci : D iotaN = 0)
    (hZ2c : %(hZ2c)s) :
    %(DhZ2c)s = 0 := by
  have h := congrArg D hZ2c
  simp only [map_add, map_sub, map_neg, map_zero, Derivation.leibniz, smul_eq_mul, D_ofNat D, cl, ci, mul_zero, zero_mul, add_zero, zero_add] at h
  linear_combination h

end C10gen
'''

FILE_HEAD2 = 'import QscProofs.C10gen.Common2\n' + G.HEADER + '''namespace C10gen
open Gen.GGB C10
variable {K : Type} [Field K] [CharZero K] (D : Derivation ℚ K K)
set_option maxHeartbeats 4000000
set_option maxRecDepth 100000
set_option linter.unusedVariables false
set_option linter.unusedSimpArgs false
set_option linter.unusedTactic false
set_option linter.unreachableTactic false

'''


def theorem(name, doc, stmt_goal, defs, goal, stmt, rs):
    num, den = sp.fraction(sp.together(goal.subs(vac)))
    num = sp.expand(num)
    c = Cert(num, rel=rs.rel)
    if not c.run(steps()):
        return None, None
    assert c.check()
    Q = rs.expand(c.Q)
    # independent re-check of the expanded certificate
    assert sp.expand(c.M * num - sum(q * rs.rel[k] for k, q in Q.items())) == 0
    order = [s[0] for s in steps()] + ['hode1', 'hode2']
    used = sorted(Q, key=lambda k: order.index(k))
    hyps = []
    for u in used:
        for h in NEEDS[u]:
            if h not in hyps:
                hyps.append(h)
    if 'h1' not in hyps:
        hyps.append('h1')
    hyps = [h for h in HYP_ORDER if h in hyps]
    L = []
    L.append('/-- %s  (relations used: %s) -/' % (doc, ', '.join(used) if used else 'none'))
    L.append('theorem %s (o : Ops K)' % name)
    L.append('    (%s : K)' % ' '.join(ATOMS2))
    L.append('    (habs : o.abs (sG*lp*B0) = lp*B0) (hB : B0 ≠ 0) (hl : lp ≠ 0) (hsG : sG * sG = 1) (hsp : spsi * spsi = 1)')
    L.append('    (cB : D B0 = 0) (cl : D lp = 0) (ci : D iotaN = 0) (ce : D etabar = 0)')
    L.append('    (hI2 : I2 = 0) (hp2 : p2 = 0)')
    for h in hyps:
        L.append('    (%s : %s)' % (h, stmt[h]))
    L[-1] += ' :'
    L.append('    let i := %s' % WIRE2)
    L.append('    %s := by' % stmt_goal)
    L.append('  subst hI2 hp2')
    L.append('  intro i')
    L.append('  have hs0 : sG ≠ 0 := sign_ne_zero hsG')
    L.append('  have hp0 : spsi ≠ 0 := sign_ne_zero hsp')
    L.append('  have hX : X1c ≠ 0 := x_ne_zero hsG hsp h1')
    L.append('  have hY : Y1s ≠ 0 := y_ne_zero hsG hsp h1')
    for u in used:
        if u in DERIVED:
            L.append('  ' + DERIVED[u])
    L.append('  simp only [i, %s, qsc_local, wire2, habs, Nat.cast_ofNat, Nat.cast_one]' % ', '.join(defs))
    Md = sp.factor(c.M * den)
    if not used:
        L[-1] += ' <;> field_simp <;> ring'
    else:
        terms = ['(%s) * %s' % (G.pr_poly(Q[u]), HNAME[u]) for u in used]
        L.append('  linear_combination (norm := (field_simp; ring)) (1 / (%s)) * (%s)' % (G.P(Md), '\n    + '.join(terms)))
    L.append('')
    info = dict(name=name, used=used, hyps=hyps, M=str(sp.factor(c.M)), den=str(sp.factor(den)), sizes=[len(sp.Add.make_args(Q[u])) for u in used])
    return '\n'.join(L), info


def generate(out, only=None):
    LEAN_NAME['dZ20'] = '(D Z20)'       # here Z20 is an atom and d_Z20_d_varphi is wired to `D Z20`
    try:
        return generate_(out, only)
    finally:
        LEAN_NAME['dZ20'] = 'dZ20'


def generate_(out, only=None):
    raw, relg, stmt, rs = setup()
    Tw, Aw = tensors()
    R3 = range(3)
    src = open(C04).read()
    sub = {}
    for n in ('ode1', 'ode2'):
        sub[n] = re.search(r'def %s .*? : K :=\n  (.*)\n' % n, src).group(1)
    for k in ['hσ', 'hk', 'hZ20', 'hZ2s', 'hZ2c']:
        sub[k] = stmt[k]
    # general D-images (the σ one with I2 present: D I2 = D B0 = 0 so it equals the vacuum one)
    sub['Dhσ'] = G.pr_poly(Dsym(relg['hσ']))
    sub['Dhk'] = G.pr_poly(Dsym(relg['hk'])); sub['DDhk'] = G.pr_poly(Dsym(Dsym(relg['hk'])))
    for k in ['hZ20', 'hZ2s', 'hZ2c']:
        sub['D' + k] = G.pr_poly(Dsym(relg[k]))
    assert sp.expand(Dsym(relg['hσ']) - rs.rel['Dhσ']) == 0
    doc = []
    for k in ['hZ20', 'hZ2s', 'hZ2c', 'hX2s', 'hX2c', 'hB20']:
        a, b = raw[k]
        m = sp.factor(sp.cancel(relg[k] / (a - b)))
        doc.append('* `%s` : m = `%s`, `%s = %s`' % (k, m, a, b))
    sub['reldoc'] = '\n'.join(doc)
    assert '-/' not in sub['reldoc'] and '%' not in sub['reldoc']
    open(os.path.join(out, 'C10gen', 'Common2.lean'), 'w').write(COMMON2 % sub)
    fams = {'Sym23': [], 'Harmonic': []}
    for i in R3:
        for j in R3:
            for k in R3:
                if j < k:
                    a, b = '%d%d%d' % (i, j, k), '%d%d%d' % (i, k, j)
                    fams['Sym23'].append(('sym23_' + a, 'vacuum (I2 = p2 = 0): symmetry derivative index / component, T[%d,%d,%d] = T[%d,%d,%d]' % (i, j, k, i, k, j),
                                          'grad_grad_B_%s o i = grad_grad_B_%s o i' % (a, b), ['grad_grad_B_' + a, 'grad_grad_B_' + b],
                                          Tw[i][j][k] - Tw[i][k][j]))
    for k in R3:
        fams['Harmonic'].append(('harmonic_%d' % k, 'vacuum (I2 = p2 = 0): Σ_j T[j,j,%d] = 0, component %d of the Laplacian of B' % (k, k),
                                 ' + '.join('grad_grad_B_%d%d%d o i' % (j, j, k) for j in R3) + ' = 0', ['grad_grad_B_%d%d%d' % (j, j, k) for j in R3],
                                 sum(Tw[j][j][k] for j in R3)))
    files = ['Common2']
    infos, failed = [], []
    for fn, items in fams.items():
        if only and not any(fn.startswith(a) for a in only):
            if os.path.exists(os.path.join(out, 'C10gen', fn + '.lean')):
                files.append(fn)
            continue
        body = []
        for (name, doc, sg, defs, goal) in items:
            t0 = time.time()
            txt, info = theorem(name, doc, sg, defs, goal, stmt, rs)
            if txt is None:
                failed.append(name); print('NO CERTIFICATE', name); continue
            body.append(txt); infos.append(info)
            print('%-14s used %s sizes %s (%.1fs)' % (name, info['used'], info['sizes'], time.time() - t0), flush=True)
        open(os.path.join(out, 'C10gen', fn + '.lean'), 'w').write(FILE_HEAD2 + '\n'.join(body) + '\nend C10gen\n')
        files.append(fn)
    files.append(nonvacuous(out, relg, stmt))
    return files, infos, failed


def nonvacuous(out, relg, stmt):
    """algebraic consistency of the full hypothesis set of the stretch theorems: a rational point with D = 0"""
    val = {sG: 1, spsi: 1, B0: 1, lp: 1, X1c: 1, Y1s: 1, Y1c: 0, etabar: 1, kap: 1, iotaN: 1, tau: -1, S['iota']: 1, I2: 0, p2: 0,
           mu0: 1, G2: 0, beta1s: 0, Z20: 0, Z2s: 0, Z2c: 0, X20: sp.Rational(-1, 4), X2c: sp.Rational(-1, 2), X2s: 0, Y20: 0, Y2c: 0,
           Y2s: sp.Rational(1, 4), B20: sp.Rational(1, 4), B2c: 0, B2s: 0}
    zeroD = {v: 0 for d in (D1, D2, D3) for v in d.values()}
    for n in HYP_ORDER:
        if n in ('hG2', 'hbeta'):
            continue
        assert sp.expand(relg[n].subs(zeroD).subs(val)) == 0, n
    names = {str(k): v for k, v in val.items()}
    def lit(v):
        v = sp.Rational(v)
        s_ = '%d' % v.p if v.q == 1 else '%d/%d' % (v.p, v.q)
        return '(%s)' % s_ if v < 0 or v.q != 1 else s_
    wit = ', '.join(lit(names[a]) for a in ATOMS2)
    conj = ['B0 ≠ 0', 'lp ≠ 0', 'sG * sG = 1', 'spsi * spsi = 1', 'D B0 = 0', 'D lp = 0', 'D iotaN = 0', 'D etabar = 0', 'I2 = 0', 'p2 = 0']
    conj += ['(%s)' % stmt[h] for h in HYP_ORDER]
    L = ['import QscProofs.C10gen.Common2', G.HEADER.rstrip(), 'namespace C10gen', 'set_option maxRecDepth 100000', '',
         '/-- the hypotheses of `sym23_*`, `harmonic_*` (a superset of those of the other families) are algebraically consistent:',
         'a rational point for the zero derivation -/',
         'theorem stretch_hypotheses_consistent :',
         '    ∃ (D : Derivation ℚ ℚ ℚ) (%s : ℚ),' % ' '.join(ATOMS2),
         '      ' + ' ∧\n      '.join(conj) + ' := by',
         '  refine ⟨0, %s, ?_⟩' % wit,
         '  simp only [ode1, ode2, Derivation.coe_zero, Pi.zero_apply]',
         '  norm_num', '', 'end C10gen', '']
    open(os.path.join(out, 'C10gen', 'NonVacuous.lean'), 'w').write('\n'.join(L))
    return 'NonVacuous'
