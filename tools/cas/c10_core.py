"""Atoms, derivation on atoms, relations and the certificate search (sequential pseudo-division) for C10gen."""
import sympy as sp
from ggb_load import load

# ---------------------------------------------------------------- atoms
CONST = 'B0 lp iotaN iota I2 sG spsi etabar mu0 p2'.split()             # D c = 0
ATOM0 = 'X1c Y1s Y1c kap tau X20 X2c X2s Y20 Y2c Y2s Z20 Z2c Z2s B20 B2c B2s G2'.split()
S = {n: sp.Symbol(n) for n in CONST + ATOM0}
# first derivative atoms  D a  (printed `D a` in Lean) and second derivative atoms `D (D a)`
D1 = {n: sp.Symbol('d' + n) for n in ATOM0}
D2 = {n: sp.Symbol('dd' + n) for n in ATOM0}
D3 = {n: sp.Symbol('ddd' + n) for n in ATOM0}
LEAN_NAME = {}
for n in ATOM0:
    LEAN_NAME['d' + n] = '(D %s)' % n
    LEAN_NAME['dd' + n] = '(D (D %s))' % n
    LEAN_NAME['ddd' + n] = '(D (D (D %s)))' % n
globals().update(S)


def Dsym(e):
    """the derivation on rational functions of the atoms (Leibniz rule)"""
    e = sp.sympify(e)
    out = 0
    for n in ATOM0:
        a = S[n]
        if e.has(a):
            out += sp.diff(e, a) * D1[n]
        if e.has(D1[n]):
            out += sp.diff(e, D1[n]) * D2[n]
        if e.has(D2[n]):
            out += sp.diff(e, D2[n]) * D3[n]
    return out


# ---------------------------------------------------------------- the tensor in atoms (wiring of `C10gen.wire`)
def wiring():
    w = {sp.Symbol('G0'): sG * lp * B0, sp.Symbol('absG0'): lp * B0,
         sp.Symbol('curvature'): kap, sp.Symbol('torsion'): tau,
         sp.Symbol('d_curvature_d_varphi'): D1['kap'], sp.Symbol('d_torsion_d_varphi'): D1['tau']}
    for n in 'X1c Y1s Y1c X20 X2c X2s Y20 Y2c Y2s Z20 Z2c Z2s'.split():
        w[sp.Symbol('d_%s_d_varphi' % n)] = D1[n]
    for n in 'X1c Y1s Y1c'.split():
        w[sp.Symbol('d2_%s_d_varphi2' % n)] = D2[n]
    return w


def tensors():
    T, A = load()
    w = wiring()
    R = range(3)
    Tw = [[[T[i][j][k].xreplace(w) for k in R] for j in R] for i in R]
    Aw = [[[A[i][j][k].xreplace(w) for k in R] for j in R] for i in R]
    return Tw, Aw


# ---------------------------------------------------------------- relations (each a polynomial that vanishes)
sp_ = sG * spsi
REL = {}
REL['h1'] = X1c * Y1s - sp_
REL['heq3'] = -X1c * Y2c + X1c * Y20 + X2s * Y1s + X2c * Y1c - X20 * Y1c
REL['heq4'] = X1c * Y2s + X2c * Y1s - X2s * Y1c + X20 * Y1s + sp_ * X1c * kap / 2
# sigma equation in atoms (Y1c = Y1s sigma, X1c Y1s = sG spsi):  Y1s^2 D(Y1c/Y1s) = ...
REL['hσ'] = Y1s * D1['Y1c'] - Y1c * D1['Y1s'] + iotaN * (X1c**2 + Y1s**2 + Y1c**2) - 2 * (-spsi * tau + I2 / B0) * sG * lp
REL['hk'] = kap * X1c - etabar
REL['hsG'] = sG**2 - 1
REL['hsp'] = spsi**2 - 1
for n in ['h1', 'heq3', 'heq4', 'hσ', 'hk']:
    REL['D' + n] = sp.expand(Dsym(REL[n]))
REL['DDh1'] = sp.expand(Dsym(REL['Dh1']))
REL['DDhk'] = sp.expand(Dsym(REL['Dhk']))


class Cert:
    """state  M * goal = sum Q[name]*REL[name] + R"""

    def __init__(self, goal, rel=REL, verbose=False):
        self.rel = rel
        self.goal = sp.expand(goal)
        self.M = sp.Integer(1)
        self.Q = {}
        self.R = self.goal
        self.verbose = verbose

    def nterms(self):
        return 0 if self.R == 0 else len(sp.Add.make_args(self.R))

    def elim(self, name, var):
        if self.R == 0 or not self.R.has(var):
            return
        r_ = sp.expand(self.rel[name])
        dR = sp.degree(self.R, var)
        dr = sp.degree(r_, var)
        if dR < dr:
            return
        q, r = sp.pdiv(self.R, r_, var)
        lc = sp.LC(r_, var)
        mult = lc ** (dR - dr + 1)
        # remove the common content of (mult, q, r) that is a monomial: keep things small
        q = sp.expand(q); r = sp.expand(r)
        g = sp.gcd_list([mult, q, r]) if r != 0 else sp.gcd(mult, q)
        if g != 1 and g != 0:
            mult = sp.cancel(mult / g); q = sp.expand(sp.cancel(q / g)); r = sp.expand(sp.cancel(r / g))
        assert sp.expand(mult * self.R - q * r_ - r) == 0
        self.M = sp.expand(self.M * mult)
        self.Q = {k: sp.expand(v * mult) for k, v in self.Q.items()}
        self.Q[name] = sp.expand(self.Q.get(name, 0) + q)
        self.R = r
        if self.verbose:
            print('   elim %-6s via %-6s mult=%s  R terms %d' % (var, name, sp.factor(mult), self.nterms()), flush=True)

    def run(self, steps):
        for name, var in steps:
            self.elim(name, var)
            if self.R == 0:
                break
        return self.R == 0

    def used(self):
        return [k for k, v in self.Q.items() if v != 0]

    def check(self):
        tot = sum(self.Q[k] * self.rel[k] for k in self.Q)
        return sp.expand(self.M * self.goal - tot - self.R) == 0


# ---------------------------------------------------------------- derived relations (triangularisation)
class RelSet:
    """a dict of relations plus derived ones  R_new = M*rel[base] - sum Q_b rel[b]  with their expansion"""

    def __init__(self, rel):
        self.rel = dict(rel)
        self.comb = {}

    def derive(self, new, base, steps):
        c = Cert(self.rel[base], rel=self.rel)
        c.run(steps)
        assert c.check()
        self.rel[new] = c.R
        self.comb[new] = (base, c.M, dict(c.Q))

    def expand(self, Q):
        """rewrite a cofactor dict over base relations only"""
        out = {}

        def add(name, coef):
            if coef == 0:
                return
            if name in self.comb:
                base, M, Qb = self.comb[name]
                add(base, sp.expand(coef * M))
                for b, q in Qb.items():
                    add(b, sp.expand(-coef * q))
            else:
                out[name] = sp.expand(out.get(name, 0) + coef)
        for k, v in Q.items():
            add(k, v)
        return {k: v for k, v in out.items() if v != 0}
