"""Trace /repo/qsc/grad_B_tensor.py::calculate_grad_grad_B_tensor with the translator (tools/trace) and convert
the expression DAG to sympy.  Returns T[i][j][k], A[i][j][k] (main, alt) as sympy expressions in the symbols named
like the fields of `Gen.GGB.In`, plus `absG0` for `np.abs(G0)`.  Cached in ggb_sym.pkl next to this file."""
import sys, os, pickle
HERE = os.path.dirname(os.path.abspath(__file__))
sys.path.insert(0, os.path.join(HERE, '..', 'trace'))
sys.setrecursionlimit(100000)
import sympy as sp


def to_sympy(e, memo):
    if e.uid in memo:
        return memo[e.uid]
    op = e.op
    if op == 'sym':
        r = sp.Symbol(e.args[0])
    elif op == 'num':
        fr = e.args[0]
        r = sp.Rational(fr.numerator, fr.denominator)
    elif op in ('add', 'sub', 'mul', 'div'):
        a, b = to_sympy(e.args[0], memo), to_sympy(e.args[1], memo)
        r = {'add': a + b, 'sub': a - b, 'mul': a * b, 'div': a / b}[op]
    elif op == 'neg':
        r = -to_sympy(e.args[0], memo)
    elif op == 'pow':
        r = to_sympy(e.args[0], memo) ** e.args[1]
    elif op == 'copy':
        r = to_sympy(e.args[0], memo)
    elif op == 'call' and e.args[0] == 'abs':
        a = e.args[1]
        assert a.op == 'sym' and a.args[0] == 'G0', 'abs of something else than G0'
        r = sp.Symbol('absG0')
    else:
        raise ValueError('unsupported node %s %r' % (op, e.args[:1]))
    memo[e.uid] = r
    return r


def load(force=False):
    cache = os.path.join(HERE, 'ggb_sym.pkl')
    src = '/repo/qsc/grad_B_tensor.py'
    import hashlib
    h = hashlib.sha256(open(src, 'rb').read()).hexdigest()
    if os.path.exists(cache) and not force:
        d = pickle.load(open(cache, 'rb'))
        if d.get('hash') == h:
            return d['T'], d['A']
    from tracer import Tracer
    from modules import MODULES
    import emit
    m = MODULES['GGB']
    tr = Tracer()
    stub, loc, ret = tr.run(m['mod'], m['fname'], m['cfg'], m['args'], m['kwargs'])
    items = dict(emit.collect_items(m, stub, loc, ret))
    memo = {}
    T = [[[to_sympy(items['grad_grad_B_%d%d%d' % (i, j, k)], memo) for k in range(3)] for j in range(3)] for i in range(3)]
    A = [[[to_sympy(items['grad_grad_B_alt_%d%d%d' % (i, j, k)], memo) for k in range(3)] for j in range(3)] for i in range(3)]
    pickle.dump(dict(hash=h, T=T, A=A), open(cache, 'wb'))
    return T, A


if __name__ == '__main__':
    T, A = load(force=True)
    syms = set()
    for i in range(3):
        for j in range(3):
            for k in range(3):
                syms |= T[i][j][k].free_symbols | A[i][j][k].free_symbols
    print(len(syms), sorted(map(str, syms)))
