"""Second-order relations (defining relations of Z2*, X2s/X2c (i.e. B2s/B2c), B20, G2 and the two ODEs `C04.ode1/2`)
in atom form, as polynomials that vanish; used for the stretch families with I2 = p2 = 0."""
import re, os
import sympy as sp
from c10_core import *
import r2_load

HERE = os.path.dirname(os.path.abspath(__file__))
C04 = os.path.join(HERE, '..', '..', 'lean', 'QscProofs', 'C04.lean')
beta1s = r2_load.beta1s
mu0 = S['mu0']; p2 = S['p2']


def parse_lean_poly(txt):
    t = re.sub(r'\(D (\w+)\)', r'd\1', txt).replace('^', '**')
    ns = dict(S); ns.update({v.name: v for v in D1.values()}); ns['beta1s'] = beta1s
    return sp.expand(sp.sympify(t, locals=ns))


def c04_odes():
    src = open(C04).read()
    out = {}
    for n in ('ode1', 'ode2'):
        m = re.search(r'def %s .*? : K :=\n  (.*)\n' % n, src)
        out[n] = parse_lean_poly(m.group(1))
    return out


def numer(e):
    return sp.expand(sp.fraction(sp.together(e))[0])


def relations2():
    """dict name -> (polynomial, lean statement `lhs = rhs` printed later from the raw forms)"""
    d = r2_load.load()
    raw = {}
    raw['hZ20'] = (Z20, d['Z20'])
    raw['hZ2s'] = (Z2s, d['Z2s'])
    raw['hZ2c'] = (Z2c, d['Z2c'])
    raw['hX2s'] = (X2s, d['X2s'])
    raw['hX2c'] = (X2c, d['X2c'])
    raw['hB20'] = (B20, d['B20'])
    raw['hG2'] = (G2, d['G2'])
    raw['hbeta'] = (beta1s, d['beta_1s'])
    od = c04_odes()
    rel = {k: numer(a - b) for k, (a, b) in raw.items()}
    rel['hode1'] = od['ode1']
    rel['hode2'] = od['ode2']
    # consistency of C04.ode1/2 with the traced linear system (given eq3, eq4, first-order relations) is C04's theorem; not needed here
    return raw, rel
